"""pyvc -- symbolic interpreter over the ast of the real Python functions (see DESIGN.md 3.2).

Values are real Python objects (real lists, tuples, dicts, instances of the real /repo classes created with
object.__new__) whose scalar leaves may be SymInt / SymBool terms.  Shapes are concrete, scalars symbolic.
Function bodies are never transcribed: they are re-read from the source file of the live function object.
"""
from __future__ import annotations

import ast
import builtins
import operator
import types

from . import loader
from .path import EngineError, Infeasible, Path, Unsupported
from .terms import (And, Eq, Ite, Not, Or, PyArith, SymBool, SymInt, b2i, is_sym, mk_cmp, mk_int, tobool)


class Raised(Exception):
    """An exception of the *interpreted program* (carries the real exception instance)."""

    def __init__(self, exc):
        Exception.__init__(self, repr(exc))
        self.exc = exc


class _Return(Exception):
    def __init__(self, value):
        self.value = value


class _Break(Exception):
    pass


class _Continue(Exception):
    pass


class IFunc(object):
    """closure created by interpreting a nested def / lambda"""

    def __init__(self, node, env, interp, name, defaults, kwdefaults, filename):
        self.node = node
        self.env = env
        self.name = name
        self.defaults = defaults
        self.kwdefaults = kwdefaults
        self.filename = filename
        self.__name__ = name

    def __repr__(self):
        return "<IFunc %s>" % self.name

    def __get__(self, obj, objtype=None):
        if obj is None:
            return self
        return IBound(self, obj)


class IBound(object):
    def __init__(self, func, self_):
        self.__func__ = func
        self.__self__ = self_


class ISuper(object):
    def __init__(self, cls, obj):
        self.cls = cls
        self.obj = obj


class CmpKey(object):
    def __init__(self, f):
        self.f = f


class Env(object):
    """lexical environment of one function activation"""
    __slots__ = ("vars", "parent", "globals", "free", "global_names", "nonlocal_names", "cls")

    def __init__(self, globals_, parent=None, free=None):
        self.vars = {}
        self.parent = parent
        self.globals = globals_
        self.free = free or {}        # name -> cell (real closures)
        self.global_names = set()
        self.nonlocal_names = set()
        self.cls = None

    def lookup(self, name):
        e = self
        while e is not None:
            if name in e.vars:
                return e.vars[name]
            if name in e.free:
                try:
                    return e.free[name].cell_contents
                except ValueError:
                    raise Raised(NameError("free variable %r referenced before assignment" % name))
            e = e.parent
        g = self.globals
        if name in g:
            return g[name]
        b = g.get("__builtins__", builtins)
        if isinstance(b, dict):
            if name in b:
                return b[name]
        elif hasattr(b, name):
            return getattr(b, name)
        if hasattr(builtins, name):
            return getattr(builtins, name)
        raise Raised(NameError("name %r is not defined" % name))

    def store(self, name, value):
        if name in self.global_names:
            self.globals[name] = value
            return
        if name in self.nonlocal_names:
            e = self.parent
            while e is not None:
                if name in e.vars:
                    e.vars[name] = value
                    return
                if name in e.free:
                    e.free[name].cell_contents = value
                    return
                e = e.parent
            if name in self.free:
                self.free[name].cell_contents = value
                return
        self.vars[name] = value

    def delete(self, name):
        if name in self.vars:
            del self.vars[name]
        else:
            raise Raised(NameError(name))


_BINOPS = {
    ast.Add: ("add", operator.add, "__add__", "__radd__"),
    ast.Sub: ("sub", operator.sub, "__sub__", "__rsub__"),
    ast.Mult: ("mul", operator.mul, "__mul__", "__rmul__"),
    ast.FloorDiv: ("floordiv", operator.floordiv, "__floordiv__", "__rfloordiv__"),
    ast.Div: ("truediv", operator.truediv, "__truediv__", "__rtruediv__"),
    ast.Mod: ("mod", operator.mod, "__mod__", "__rmod__"),
    ast.Pow: ("pow", operator.pow, "__pow__", "__rpow__"),
    ast.BitAnd: ("and", operator.and_, "__and__", "__rand__"),
    ast.BitOr: ("or", operator.or_, "__or__", "__ror__"),
    ast.BitXor: ("xor", operator.xor, "__xor__", "__rxor__"),
    ast.LShift: ("shl", operator.lshift, "__lshift__", "__rlshift__"),
    ast.RShift: ("shr", operator.rshift, "__rshift__", "__rrshift__"),
    ast.MatMult: ("matmul", operator.matmul, "__matmul__", "__rmatmul__"),
}
_INPLACE = {"__add__": "__iadd__", "__sub__": "__isub__", "__mul__": "__imul__", "__and__": "__iand__",
            "__or__": "__ior__", "__xor__": "__ixor__", "__lshift__": "__ilshift__", "__rshift__": "__irshift__",
            "__floordiv__": "__ifloordiv__", "__mod__": "__imod__", "__truediv__": "__itruediv__",
            "__pow__": "__ipow__", "__matmul__": "__imatmul__"}


class Interp(object):
    def __init__(self, path, config=None):
        from . import ops
        self.path = path
        self.cfg = config or {}
        self.ops = ops.Ops(self)
        self.max_loop = self.cfg.get("max_loop", 600)
        self.max_steps = self.cfg.get("max_steps", 400000)
        self.depth = 0
        self.max_depth = self.cfg.get("max_depth", 120)
        self.interpreted = {}         # function qualname -> count (evidence: what was actually interpreted)
        self.native_calls = {}

    # ==================================================================================================
    # function calls
    # ==================================================================================================
    def call_function(self, fn, args, kwargs=None):
        """interpret a real python function object (or IFunc) on already evaluated arguments"""
        kwargs = kwargs or {}
        if isinstance(fn, IFunc):
            node, filename = fn.node, fn.filename
            env = Env(fn.env.globals, parent=fn.env)
            env.cls = fn.env.cls
            defaults, kwdefaults = fn.defaults, fn.kwdefaults
            name = fn.name
        else:
            try:
                node, filename = loader.func_ast(fn)
            except loader.SourceUnavailable as e:
                raise Unsupported(str(e))
            free = {}
            if fn.__closure__:
                free = dict(zip(fn.__code__.co_freevars, fn.__closure__))
            env = Env(fn.__globals__, free=free)
            defaults = fn.__defaults__ or ()
            kwdefaults = fn.__kwdefaults__ or {}
            name = fn.__qualname__
            if "__class__" in free:
                try:
                    env.cls = free["__class__"].cell_contents
                except ValueError:
                    pass
        key = "%s:%s" % (filename.replace("/repo/", ""), name)
        self.interpreted[key] = self.interpreted.get(key, 0) + 1
        self.bind_args(node, env, args, kwargs, defaults, kwdefaults, name)
        self.depth += 1
        if self.depth > self.max_depth:
            self.depth -= 1
            raise Unsupported("interpreter recursion depth exceeded in %s" % name)
        try:
            if isinstance(node, ast.Lambda):
                return self.eval(node.body, env)
            if _is_generator(node):
                out = []
                env.vars["__yield__"] = out
                try:
                    self.exec_block(node.body, env)
                except _Return:
                    pass
                return iter(out)
            try:
                self.exec_block(node.body, env)
            except _Return as r:
                return r.value
            return None
        finally:
            self.depth -= 1

    def bind_args(self, node, env, args, kwargs, defaults, kwdefaults, name):
        a = node.args
        params = [p.arg for p in a.posonlyargs] + [p.arg for p in a.args]
        args = list(args)
        kwargs = dict(kwargs)
        n = len(params)
        if len(args) > n and a.vararg is None:
            raise Raised(TypeError("%s() takes %d positional arguments but %d were given" % (name, n, len(args))))
        for i, p in enumerate(params):
            if i < len(args):
                if p in kwargs:
                    raise Raised(TypeError("%s() got multiple values for argument %r" % (name, p)))
                env.vars[p] = args[i]
            elif p in kwargs:
                env.vars[p] = kwargs.pop(p)
            else:
                di = i - (n - len(defaults))
                if di >= 0:
                    env.vars[p] = defaults[di]
                else:
                    raise Raised(TypeError("%s() missing required positional argument %r" % (name, p)))
        if a.vararg is not None:
            env.vars[a.vararg.arg] = tuple(args[n:])
        for p in a.kwonlyargs:
            if p.arg in kwargs:
                env.vars[p.arg] = kwargs.pop(p.arg)
            elif p.arg in kwdefaults:
                env.vars[p.arg] = kwdefaults[p.arg]
            else:
                raise Raised(TypeError("%s() missing keyword-only argument %r" % (name, p.arg)))
        if a.kwarg is not None:
            env.vars[a.kwarg.arg] = kwargs
        elif kwargs:
            raise Raised(TypeError("%s() got an unexpected keyword argument %r" % (name, sorted(kwargs)[0])))
        # scope declarations (cached on the ast node)
        decl = getattr(node, "_vc_decl", None)
        if decl is None:
            g, n = set(), set()
            for sub in ast.walk(node):
                if isinstance(sub, ast.Global):
                    g.update(sub.names)
                elif isinstance(sub, ast.Nonlocal):
                    n.update(sub.names)
            decl = (g, n)
            node._vc_decl = decl
        if decl[0]:
            env.global_names.update(decl[0])
        if decl[1]:
            env.nonlocal_names.update(decl[1])

    # ==================================================================================================
    # statements
    # ==================================================================================================
    def exec_block(self, stmts, env):
        for s in stmts:
            self.exec_stmt(s, env)

    def exec_stmt(self, s, env):
        self.path.tick(self.max_steps)
        m = getattr(self, "s_" + s.__class__.__name__, None)
        if m is None:
            raise Unsupported("statement %s at line %d" % (s.__class__.__name__, s.lineno))
        return m(s, env)

    def s_Expr(self, s, env):
        if isinstance(s.value, ast.Constant):
            return      # docstring
        if isinstance(s.value, (ast.Yield, ast.YieldFrom)):
            self.eval(s.value, env)
            return
        self.eval(s.value, env)

    def s_Pass(self, s, env):
        pass

    def s_Assign(self, s, env):
        v = self.eval(s.value, env)
        for t in s.targets:
            self.assign(t, v, env)

    def s_AnnAssign(self, s, env):
        if s.value is not None:
            self.assign(s.target, self.eval(s.value, env), env)

    def s_AugAssign(self, s, env):
        t = s.target
        if isinstance(t, ast.Name):
            cur = env.lookup(t.id)
            new = self.ops.binop(type(s.op), cur, self.eval(s.value, env), inplace=True)
            env.store(t.id, new)
        elif isinstance(t, ast.Attribute):
            obj = self.eval(t.value, env)
            cur = self.ops.getattr(obj, t.attr)
            new = self.ops.binop(type(s.op), cur, self.eval(s.value, env), inplace=True)
            self.ops.setattr(obj, t.attr, new)
        elif isinstance(t, ast.Subscript):
            obj = self.eval(t.value, env)
            idx = self.eval_index(t.slice, env)
            cur = self.ops.getitem(obj, idx)
            new = self.ops.binop(type(s.op), cur, self.eval(s.value, env), inplace=True)
            self.ops.setitem(obj, idx, new)
        else:
            raise Unsupported("augmented assignment target")

    def assign(self, t, v, env):
        if isinstance(t, ast.Name):
            env.store(t.id, v)
        elif isinstance(t, (ast.Tuple, ast.List)):
            items = self.ops.iterate_list(v)
            star = [i for i, e in enumerate(t.elts) if isinstance(e, ast.Starred)]
            if star:
                i = star[0]
                after = len(t.elts) - i - 1
                if len(items) < len(t.elts) - 1:
                    raise Raised(ValueError("not enough values to unpack"))
                for e, x in zip(t.elts[:i], items[:i]):
                    self.assign(e, x, env)
                self.assign(t.elts[i].value, list(items[i:len(items) - after]), env)
                for e, x in zip(t.elts[i + 1:], items[len(items) - after:]):
                    self.assign(e, x, env)
            else:
                if len(items) != len(t.elts):
                    raise Raised(ValueError("unpack: expected %d values, got %d" % (len(t.elts), len(items))))
                for e, x in zip(t.elts, items):
                    self.assign(e, x, env)
        elif isinstance(t, ast.Attribute):
            self.ops.setattr(self.eval(t.value, env), t.attr, v)
        elif isinstance(t, ast.Subscript):
            self.ops.setitem(self.eval(t.value, env), self.eval_index(t.slice, env), v)
        else:
            raise Unsupported("assignment target %s" % t.__class__.__name__)

    def s_Delete(self, s, env):
        for t in s.targets:
            if isinstance(t, ast.Name):
                env.delete(t.id)
            elif isinstance(t, ast.Subscript):
                self.ops.delitem(self.eval(t.value, env), self.eval_index(t.slice, env))
            elif isinstance(t, ast.Attribute):
                self.ops.delattr(self.eval(t.value, env), t.attr)
            else:
                raise Unsupported("del target")

    def s_If(self, s, env):
        if self.ops.truth(self.eval(s.test, env)):
            self.exec_block(s.body, env)
        else:
            self.exec_block(s.orelse, env)

    def s_While(self, s, env):
        n = 0
        while True:
            if not self.ops.truth(self.eval(s.test, env)):
                self.exec_block(s.orelse, env)
                return
            n += 1
            if n > self.max_loop:
                raise Unsupported("loop at line %d not unwound within %d iterations" % (s.lineno, self.max_loop))
            try:
                self.exec_block(s.body, env)
            except _Break:
                return
            except _Continue:
                continue

    def s_For(self, s, env):
        n = 0
        for x in self.ops.iterate(self.eval(s.iter, env)):
            n += 1
            if n > self.max_loop * 8:
                raise Unsupported("for loop at line %d too long" % s.lineno)
            self.assign(s.target, x, env)
            try:
                self.exec_block(s.body, env)
            except _Break:
                return
            except _Continue:
                continue
        self.exec_block(s.orelse, env)

    def s_Break(self, s, env):
        raise _Break()

    def s_Continue(self, s, env):
        raise _Continue()

    def s_Return(self, s, env):
        raise _Return(None if s.value is None else self.eval(s.value, env))

    def s_Global(self, s, env):
        pass

    def s_Nonlocal(self, s, env):
        pass

    def s_Import(self, s, env):
        for a in s.names:
            try:
                mod = __import__(a.name)
            except ImportError as e:
                raise Raised(e)
            if a.asname:
                for part in a.name.split(".")[1:]:
                    mod = getattr(mod, part)
                env.store(a.asname, mod)
            else:
                env.store(a.name.split(".")[0], mod)

    def s_ImportFrom(self, s, env):
        import importlib
        try:
            pkg = env.globals.get("__package__")
            mod = importlib.import_module("." * s.level + (s.module or ""), pkg if s.level else None)
        except ImportError as e:
            raise Raised(e)
        for a in s.names:
            try:
                env.store(a.asname or a.name, getattr(mod, a.name))
            except AttributeError:
                raise Raised(ImportError("cannot import name %r" % a.name))

    def s_Assert(self, s, env):
        if not self.ops.truth(self.eval(s.test, env)):
            msg = self.eval(s.msg, env) if s.msg is not None else None
            raise Raised(AssertionError(msg) if msg is not None else AssertionError())

    def s_Raise(self, s, env):
        if s.exc is None:
            cur = env.lookup("__exc__") if self._has(env, "__exc__") else None
            if cur is None:
                raise Raised(RuntimeError("No active exception to reraise"))
            raise Raised(cur)
        e = self.eval(s.exc, env)
        if isinstance(e, type) and issubclass(e, BaseException):
            e = self.ops.call(e, [], {})
        if not isinstance(e, BaseException):
            raise Raised(TypeError("exceptions must derive from BaseException"))
        raise Raised(e)

    def _has(self, env, name):
        e = env
        while e is not None:
            if name in e.vars:
                return True
            e = e.parent
        return False

    def s_Try(self, s, env):
        try:
            try:
                self.exec_block(s.body, env)
            except Raised as r:
                exc = r.exc
                for h in s.handlers:
                    if h.type is None:
                        match = True
                    else:
                        cls = self.eval(h.type, env)
                        match = isinstance(exc, cls)
                    if match:
                        if h.name:
                            env.store(h.name, exc)
                        saved = env.vars.get("__exc__")
                        env.vars["__exc__"] = exc
                        try:
                            self.exec_block(h.body, env)
                        finally:
                            env.vars["__exc__"] = saved
                        break
                else:
                    raise
            else:
                self.exec_block(s.orelse, env)
        finally:
            if s.finalbody:
                self.exec_block(s.finalbody, env)

    def s_FunctionDef(self, s, env):
        f = self.make_closure(s, env, s.name)
        for d in reversed(s.decorator_list):
            f = self.ops.call(self.eval(d, env), [f], {})
        env.store(s.name, f)

    def make_closure(self, node, env, name):
        a = node.args
        defaults = tuple(self.eval(d, env) for d in a.defaults)
        kwdefaults = {}
        for p, d in zip(a.kwonlyargs, a.kw_defaults):
            if d is not None:
                kwdefaults[p.arg] = self.eval(d, env)
        return IFunc(node, env, self, name, defaults, kwdefaults, getattr(env, "filename", "<closure>"))

    # ==================================================================================================
    # expressions
    # ==================================================================================================
    def eval(self, e, env):
        m = getattr(self, "e_" + e.__class__.__name__, None)
        if m is None:
            raise Unsupported("expression %s at line %d" % (e.__class__.__name__, getattr(e, "lineno", 0)))
        return m(e, env)

    def e_Constant(self, e, env):
        return e.value

    def e_Name(self, e, env):
        return env.lookup(e.id)

    def e_NamedExpr(self, e, env):
        v = self.eval(e.value, env)
        env.store(e.target.id, v)
        return v

    def e_Tuple(self, e, env):
        return tuple(self.eval_seq(e.elts, env))

    def e_List(self, e, env):
        return self.eval_seq(e.elts, env)

    def eval_seq(self, elts, env):
        out = []
        for x in elts:
            if isinstance(x, ast.Starred):
                out.extend(self.ops.iterate_list(self.eval(x.value, env)))
            else:
                out.append(self.eval(x, env))
        return out

    def e_Set(self, e, env):
        out = set()
        for x in self.eval_seq(e.elts, env):
            self.ops.set_add(out, x)
        return out

    def e_Dict(self, e, env):
        out = {}
        for k, v in zip(e.keys, e.values):
            if k is None:
                d = self.eval(v, env)
                for kk in list(d):
                    self.ops.setitem(out, kk, d[kk])
            else:
                kk = self.eval(k, env)
                self.ops.setitem(out, kk, self.eval(v, env))
        return out

    def e_BinOp(self, e, env):
        a = self.eval(e.left, env)
        b = self.eval(e.right, env)
        return self.ops.binop(type(e.op), a, b)

    def e_UnaryOp(self, e, env):
        v = self.eval(e.operand, env)
        return self.ops.unop(type(e.op), v)

    def e_BoolOp(self, e, env):
        isand = isinstance(e.op, ast.And)
        v = None
        for i, x in enumerate(e.values):
            v = self.eval(x, env)
            if i == len(e.values) - 1:
                return v
            t = self.ops.truth(v)
            if isand and not t:
                return v
            if not isand and t:
                return v
        return v

    def e_Compare(self, e, env):
        left = self.eval(e.left, env)
        result = True
        for i, (op, right_e) in enumerate(zip(e.ops, e.comparators)):
            right = self.eval(right_e, env)
            r = self.ops.compare(type(op), left, right)
            if i == len(e.ops) - 1:
                if result is True:
                    return r
                return r
            if not self.ops.truth(r):
                return r
            left = right
        return result

    def e_IfExp(self, e, env):
        if self.ops.truth(self.eval(e.test, env)):
            return self.eval(e.body, env)
        return self.eval(e.orelse, env)

    def e_Attribute(self, e, env):
        return self.ops.getattr(self.eval(e.value, env), e.attr)

    def eval_index(self, sl, env):
        if isinstance(sl, ast.Slice):
            return slice(None if sl.lower is None else self.eval(sl.lower, env),
                         None if sl.upper is None else self.eval(sl.upper, env),
                         None if sl.step is None else self.eval(sl.step, env))
        if isinstance(sl, ast.Tuple):
            return tuple(self.eval_index(x, env) for x in sl.elts)
        return self.eval(sl, env)

    def e_Subscript(self, e, env):
        return self.ops.getitem(self.eval(e.value, env), self.eval_index(e.slice, env))

    def e_Slice(self, e, env):
        return self.eval_index(e, env)

    def e_Starred(self, e, env):
        raise Unsupported("starred expression outside call/sequence")

    def e_Lambda(self, e, env):
        return self.make_closure(e, env, "<lambda>")

    def e_JoinedStr(self, e, env):
        parts = []
        for v in e.values:
            if isinstance(v, ast.Constant):
                parts.append(v.value)
            else:
                val = self.eval(v.value, env)
                spec = self.eval(v.format_spec, env) if v.format_spec is not None else ""
                if v.conversion == 114:
                    val = self.ops.to_str(val, repr_=True)
                parts.append(format(self.ops.fmt_safe(val), spec))
        return "".join(parts)

    def e_FormattedValue(self, e, env):
        return self.ops.to_str(self.eval(e.value, env))

    def e_Yield(self, e, env):
        v = None if e.value is None else self.eval(e.value, env)
        env.lookup("__yield__").append(v)
        return None

    def e_YieldFrom(self, e, env):
        out = env.lookup("__yield__")
        for x in self.ops.iterate(self.eval(e.value, env)):
            out.append(x)
        return None

    # -- comprehensions ------------------------------------------------------------------------------
    def _comp(self, gens, env, emit):
        def rec(i, cenv):
            if i == len(gens):
                emit(cenv)
                return
            g = gens[i]
            it = self.eval(g.iter, cenv if i else env)
            for x in self.ops.iterate(it):
                self.path.tick(self.max_steps)
                self.assign(g.target, x, cenv)
                ok = True
                for c in g.ifs:
                    if not self.ops.truth(self.eval(c, cenv)):
                        ok = False
                        break
                if ok:
                    rec(i + 1, cenv)
        cenv = Env(env.globals, parent=env)
        cenv.cls = env.cls
        rec(0, cenv)

    def e_ListComp(self, e, env):
        out = []
        self._comp(e.generators, env, lambda c: out.append(self.eval(e.elt, c)))
        return out

    def e_SetComp(self, e, env):
        out = set()
        self._comp(e.generators, env, lambda c: self.ops.set_add(out, self.eval(e.elt, c)))
        return out

    def e_DictComp(self, e, env):
        out = {}
        self._comp(e.generators, env, lambda c: self.ops.setitem(out, self.eval(e.key, c), self.eval(e.value, c)))
        return out

    def e_GeneratorExp(self, e, env):
        interp = self

        def gen():
            # lazy: consumers such as any()/all() stop early exactly like CPython
            gens = e.generators
            cenv = Env(env.globals, parent=env)
            cenv.cls = env.cls

            def rec(i):
                if i == len(gens):
                    yield interp.eval(e.elt, cenv)
                    return
                g = gens[i]
                it = interp.eval(g.iter, cenv if i else env)
                for x in interp.ops.iterate(it):
                    interp.assign(g.target, x, cenv)
                    ok = True
                    for c in g.ifs:
                        if not interp.ops.truth(interp.eval(c, cenv)):
                            ok = False
                            break
                    if ok:
                        for y in rec(i + 1):
                            yield y
            for y in rec(0):
                yield y
        return LazyGen(gen())

    # -- calls -----------------------------------------------------------------------------------------
    def e_Call(self, e, env):
        # super() without arguments
        if isinstance(e.func, ast.Name) and e.func.id == "super" and not e.args and not self._has(env, "super"):
            cls = env.cls
            selfname = None
            en = env
            while en is not None and cls is None:
                cls = en.cls
                en = en.parent
            # first positional parameter of the enclosing function
            en = env
            while en is not None:
                if en.vars:
                    selfname = next(iter(en.vars))
                    if en.parent is None or en.cls is not None:
                        break
                en = en.parent
            if cls is None:
                raise Unsupported("zero-argument super() outside a method with __class__ cell")
            return ISuper(cls, env.lookup(selfname))
        f = self.eval(e.func, env)
        args = []
        for a in e.args:
            if isinstance(a, ast.Starred):
                args.extend(self.ops.iterate_list(self.eval(a.value, env)))
            else:
                args.append(self.eval(a, env))
        kwargs = {}
        for k in e.keywords:
            if k.arg is None:
                kwargs.update(self.eval(k.value, env))
            else:
                kwargs[k.arg] = self.eval(k.value, env)
        return self.ops.call(f, args, kwargs)


class LazyGen(object):
    """generator expression value (lazy).  Iterable once, like the real thing."""

    def __init__(self, g):
        self.g = g

    def __iter__(self):
        return self.g


def _is_generator(node):
    r = getattr(node, "_vc_isgen", None)
    if r is None:
        r = False
        for sub in _walk_local(node):
            if isinstance(sub, (ast.Yield, ast.YieldFrom)):
                r = True
                break
        node._vc_isgen = r
    return r


def _walk_local(node):
    """walk a function body without entering nested function definitions"""
    stack = list(node.body) if hasattr(node, "body") and isinstance(node.body, list) else [node.body]
    while stack:
        n = stack.pop()
        yield n
        for c in ast.iter_child_nodes(n):
            if isinstance(c, (ast.FunctionDef, ast.Lambda, ast.AsyncFunctionDef, ast.ClassDef)):
                continue
            stack.append(c)
