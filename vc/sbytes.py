"""Byte strings and array('B') buffers with symbolic byte values and concrete length (models; trusted, cross-checked
against CPython by the differential run).  All-concrete content collapses to real ``bytes``."""
from __future__ import annotations

import array as _array
import ast
import struct as _struct

from .ops import Hooks, RepBytes, _MISSING
from .path import Infeasible, Unsupported
from .terms import And, Eq, Ite, Not, Or, SymBool, SymInt, b2i, is_sym, mk_cmp, mk_int

MAX_REP = 64


class SBytes(object):
    __slots__ = ("b",)

    def __init__(self, items):
        self.b = list(items)

    def __repr__(self):
        return "SBytes(%r)" % (self.b,)

    def __len__(self):
        return len(self.b)


class SArray(object):
    """array('B') model: mutable list of byte scalars"""
    __slots__ = ("b", "typecode")

    def __init__(self, items=()):
        self.b = list(items)
        self.typecode = "B"

    def __repr__(self):
        return "SArray(%r)" % (self.b,)

    def __len__(self):
        return len(self.b)


def mk_bytes(items):
    items = list(items)
    for x in items:
        if is_sym(x):
            return SBytes(items)
    return bytes(items)


def as_list(o, v, what="bytes-like"):
    """list of byte scalars of a bytes-like value"""
    if isinstance(v, (bytes, bytearray)):
        return list(v)
    if isinstance(v, (SBytes, SArray)):
        return list(v.b)
    if isinstance(v, _array.array):
        return list(v.tobytes())
    if isinstance(v, RepBytes):
        n = concretize(o, v.count, MAX_REP, "byte string repetition count")
        return list(v.unit) * max(n, 0)
    raise o.pyvc.Raised(TypeError("a bytes-like object is required, not %r" % type(v).__name__))


def concretize(o, n, limit, what):
    """concrete value of a symbolic integer by forking over its feasible values; beyond `limit` -> out of subset"""
    if not is_sym(n):
        return n
    v = o.path.pick_value(n, what)
    if v > limit:
        raise Unsupported("%s not bounded by %d" % (what, limit))
    return v


def byte_check(o, v):
    """array('B') / bytes() element range check"""
    if is_sym(v):
        v = b2i(v)
        if o.path.decide(Or(mk_cmp("lt", v, 0), mk_cmp("lt", 255, v))):
            raise o.pyvc.Raised(OverflowError("unsigned byte integer is out of range"))
        return v
    if not isinstance(v, int):
        raise o.pyvc.Raised(TypeError("an integer is required"))
    if v < 0 or v > 255:
        raise o.pyvc.Raised(OverflowError("unsigned byte integer is out of range"))
    return v


def seq_eq(a, b):
    if len(a) != len(b):
        return False
    return And(*[Eq(x, y) for x, y in zip(a, b)])


def find_model(o, hay, pat, start, end, reverse=False):
    n = len(hay)
    start = 0 if start is None else start
    end = n if end is None else end
    if is_sym(start) or is_sym(end):
        start = o.slice_bound(start, n, 0)
        end = o.slice_bound(end, n, n)
    else:
        start, end, _ = slice(start, end).indices(n)
    m = len(pat)
    rng = range(start, end - m + 1)
    if reverse:
        rng = reversed(rng)
    for i in rng:
        if o.truth(seq_eq(hay[i:i + m], pat)):
            return i
    return -1


class ByteHooks(Hooks):
    """core support for SBytes / SArray; front ends subclass this"""

    def concrete(self, o, v):
        if isinstance(v, (SBytes, SArray)):
            return all(not is_sym(x) for x in v.b) and False      # model objects are never handed to native code
        if isinstance(v, RepBytes):
            return False
        return None

    def truth(self, o, v):
        if isinstance(v, (SBytes, SArray)):
            return len(v.b) > 0
        return None

    def length(self, o, v):
        if isinstance(v, (SBytes, SArray)):
            return len(v.b)
        return None

    def iterate(self, o, v):
        if isinstance(v, (SBytes, SArray)):
            return iter(list(v.b))
        if isinstance(v, RepBytes):
            return iter(as_list(o, v))
        return None

    def typeof(self, o, v):
        if isinstance(v, SBytes):
            return bytes
        if isinstance(v, SArray):
            return _array.array
        return None

    def isinstance(self, o, x, cls):
        if isinstance(x, (SBytes, RepBytes)):
            return isinstance(b"", cls)
        if isinstance(x, SArray):
            return isinstance(_array.array("B"), cls)
        return None

    def equal(self, o, a, b):
        if isinstance(a, (SBytes, RepBytes)) or isinstance(b, (SBytes, RepBytes)):
            if isinstance(a, (bytes, SBytes, RepBytes)) and isinstance(b, (bytes, SBytes, RepBytes)):
                return seq_eq(as_list(o, a), as_list(o, b))
            return False
        if isinstance(a, SArray) or isinstance(b, SArray):
            if isinstance(a, (SArray, _array.array)) and isinstance(b, (SArray, _array.array)):
                return seq_eq(as_list(o, a), as_list(o, b))
            return False
        return None

    def order(self, o, op, a, b):
        if isinstance(a, (SBytes, RepBytes)) or isinstance(b, (SBytes, RepBytes)):
            if isinstance(a, (bytes, SBytes, RepBytes)) and isinstance(b, (bytes, SBytes, RepBytes)):
                return o.order(op, tuple(as_list(o, a)), tuple(as_list(o, b)))      # lexicographic, like bytes
            raise o.pyvc.Raised(TypeError("'<' not supported between instances of 'bytes' and %r" % type(b).__name__))
        return None

    def contains(self, o, cont, x):
        if isinstance(cont, (SBytes, SArray)) or (isinstance(cont, bytes) and isinstance(x, SBytes)):
            hay = as_list(o, cont)
            if isinstance(x, (bytes, SBytes)) and not isinstance(cont, SArray):
                pat = as_list(o, x)
                return Or(*[seq_eq(hay[i:i + len(pat)], pat) for i in range(0, len(hay) - len(pat) + 1)])
            return Or(*[Eq(y, x) for y in hay])
        return None

    def binop(self, o, name, a, b):
        ba = isinstance(a, (bytes, SBytes, RepBytes))
        bb = isinstance(b, (bytes, SBytes, RepBytes))
        if name == "add" and ba and bb and (isinstance(a, (SBytes, RepBytes)) or isinstance(b, (SBytes, RepBytes))):
            return mk_bytes(as_list(o, a) + as_list(o, b))
        if name == "add" and isinstance(a, SArray) and isinstance(b, (SArray, _array.array)):
            return SArray(a.b + as_list(o, b))
        if name == "mul" and isinstance(a, SBytes) and not isinstance(b, (SBytes, RepBytes, SArray)):
            n = concretize(o, b, MAX_REP, "byte string repetition count")
            return mk_bytes(a.b * max(n, 0))
        if name == "mod" and isinstance(a, (bytes, str)) and isinstance(b, SBytes):
            raise Unsupported("string formatting with symbolic bytes")
        return NotImplemented

    def getitem(self, o, obj, idx):
        if isinstance(obj, (SBytes, SArray)):
            if isinstance(idx, slice):
                sl = o.concrete_slice(idx, len(obj.b))
                if isinstance(obj, SBytes):
                    return mk_bytes(obj.b[sl])
                return SArray(obj.b[sl])
            k = o.index_value(idx, len(obj.b), "index")
            return obj.b[k]
        if isinstance(obj, RepBytes):
            return self.getitem(o, SBytes(as_list(o, obj)), idx)
        return NotImplemented

    def setitem(self, o, obj, idx, v):
        if isinstance(obj, SArray):
            if isinstance(idx, slice):
                sl = o.concrete_slice(idx, len(obj.b))
                if not isinstance(v, (SArray, _array.array)):
                    raise o.pyvc.Raised(TypeError("can only assign array (not %r) to array slice" % type(v).__name__))
                obj.b[sl] = as_list(o, v)
                return None
            k = o.index_value(idx, len(obj.b), "array assignment index")
            obj.b[k] = byte_check(o, v)
            return None
        if isinstance(obj, SBytes):
            raise o.pyvc.Raised(TypeError("'bytes' object does not support item assignment"))
        return NotImplemented

    def delitem(self, o, obj, idx):
        if isinstance(obj, SArray):
            if isinstance(idx, slice):
                del obj.b[o.concrete_slice(idx, len(obj.b))]
            else:
                del obj.b[o.index_value(idx, len(obj.b), "array index")]
            return None
        return NotImplemented

    def getattr(self, o, obj, name):
        if isinstance(obj, (SBytes, SArray, RepBytes)):
            if name == "typecode" and isinstance(obj, SArray):
                return "B"
            return _Bound(self, obj, name)
        return NotImplemented

    def call(self, o, f, args, kwargs):
        if isinstance(f, _Bound):
            return f.hooks.method(o, f.obj, f.name, list(args), kwargs)
        if f is _array.array:
            tc = args[0]
            if tc != "B":
                if o.all_concrete(args, kwargs):
                    return o.native_call(f, args, kwargs)
                raise Unsupported("array(%r) with symbolic content" % (tc,))
            a = SArray()
            if len(args) > 1:
                init = args[1]
                if isinstance(init, (bytes, SBytes, RepBytes, bytearray)):
                    a.b.extend(as_list(o, init))
                else:
                    for x in o.iterate(init):
                        a.b.append(byte_check(o, x))
            return a
        if f is bytes:
            if not args:
                return b""
            x = args[0]
            if isinstance(x, (SBytes,)):
                return x
            if isinstance(x, RepBytes):
                return mk_bytes(as_list(o, x))
            if isinstance(x, SArray):
                return mk_bytes(x.b)
            if isinstance(x, (SymInt, SymBool)):
                n = concretize(o, x, MAX_REP, "bytes(n) length")
                if n < 0:
                    raise o.pyvc.Raised(ValueError("negative count"))
                return bytes(n)
            if isinstance(x, (list, tuple)) and not o.concrete(x):
                return mk_bytes([byte_check(o, y) for y in x])
            if type(x) not in (bytes, bytearray, int, str, list, tuple, _array.array):
                m = o._type_lookup(type(x), "__bytes__")
                if m is not None:
                    return o.call_method(x, m, [])
            return NotImplemented
        if f is _struct.pack:
            fmt = args[0]
            vals = args[1:]
            if o.all_concrete(args):
                return NotImplemented
            return pack_model(o, fmt, vals)
        if f is _struct.unpack:
            fmt, data = args
            if isinstance(data, SBytes):
                return unpack_model(o, fmt, data.b)
            return NotImplemented
        if f is ord and args and isinstance(args[0], SBytes):
            if len(args[0].b) != 1:
                raise o.pyvc.Raised(TypeError("ord() expected a character, but string of length %d found" % len(args[0].b)))
            return args[0].b[0]
        if f is int.from_bytes and args and isinstance(args[0], SBytes):
            order = args[1] if len(args) > 1 else kwargs.get("byteorder", "big")
            bs = args[0].b if order == "big" else list(reversed(args[0].b))
            r = 0
            for x in bs:
                r = mk_int("add", mk_int("mul", r, 256), x)
            return r
        return NotImplemented

    def builtin_method(self, o, obj, name, args, kwargs):
        if isinstance(obj, (bytes, bytearray)) and any(isinstance(a, (SBytes, RepBytes)) for a in args):
            return self.method(o, SBytes(list(obj)), name, list(args), kwargs)
        if isinstance(obj, bytes) and name in ("find", "rfind") and not o.all_concrete(args, kwargs):
            return self.method(o, SBytes(list(obj)), name, list(args), kwargs)
        if isinstance(obj, bytes) and name == "join":
            parts = o.iterate_list(args[0])
            if any(isinstance(p, (SBytes, RepBytes)) for p in parts):
                out = []
                for i, p in enumerate(parts):
                    if i:
                        out.extend(obj)
                    out.extend(as_list(o, p))
                return mk_bytes(out)
        return NotImplemented

    def method(self, o, obj, name, args, kwargs):
        if isinstance(obj, RepBytes):
            obj = SBytes(as_list(o, obj))
        if isinstance(obj, SArray):
            if name in ("frombytes", "fromstring"):
                obj.b.extend(as_list(o, args[0]))
                return None
            if name in ("tobytes", "tostring"):
                return mk_bytes(obj.b)
            if name == "extend":
                x = args[0]
                if isinstance(x, (SArray, _array.array)):
                    obj.b.extend(as_list(o, x))
                elif isinstance(x, (bytes, SBytes, RepBytes)):
                    obj.b.extend(as_list(o, x))
                else:
                    for y in o.iterate(x):
                        obj.b.append(byte_check(o, y))
                return None
            if name == "append":
                obj.b.append(byte_check(o, args[0]))
                return None
            if name == "pop":
                if not obj.b:
                    raise o.pyvc.Raised(IndexError("pop from empty array"))
                return obj.b.pop(o.index_value(args[0] if args else -1, len(obj.b), "pop index"))
            if name == "tolist":
                return list(obj.b)
            if name == "__len__":
                return len(obj.b)
            if name == "insert":
                obj.b.insert(o.slice_bound(args[0], len(obj.b), 0), byte_check(o, args[1]))
                return None
            raise Unsupported("array.%s has no model" % name)
        # SBytes
        if name in ("find", "rfind", "index", "rindex"):
            pat = args[0]
            if isinstance(pat, (int, SymInt)):
                pat = [pat]
            else:
                pat = as_list(o, pat)
            start = args[1] if len(args) > 1 else kwargs.get("start")
            end = args[2] if len(args) > 2 else kwargs.get("end")
            r = find_model(o, obj.b, pat, start, end, reverse=name.startswith("r"))
            if r < 0 and name.endswith("index"):
                raise o.pyvc.Raised(ValueError("subsection not found"))
            return r
        if name == "startswith":
            pat = as_list(o, args[0])
            return seq_eq(obj.b[:len(pat)], pat) if len(pat) <= len(obj.b) else False
        if name == "endswith":
            pat = as_list(o, args[0])
            return seq_eq(obj.b[len(obj.b) - len(pat):], pat) if len(pat) <= len(obj.b) else False
        if name == "count":
            pat = as_list(o, args[0])
            if len(pat) != 1:
                raise Unsupported("bytes.count with a multi-byte pattern")
            n = 0
            for x in obj.b:
                n = mk_int("add", n, Ite(Eq(x, pat[0]), 1, 0))
            return n
        if name == "__len__":
            return len(obj.b)
        if name == "join":
            parts = o.iterate_list(args[0])
            out = []
            for i, p in enumerate(parts):
                if i:
                    out.extend(obj.b)
                out.extend(as_list(o, p))
            return mk_bytes(out)
        if name in ("ljust", "rjust") and len(args) == 2:
            n = concretize(o, args[0], MAX_REP, "width")
            pad = as_list(o, args[1]) * max(0, n - len(obj.b))
            return mk_bytes(obj.b + pad if name == "ljust" else pad + obj.b)
        raise Unsupported("bytes.%s on symbolic content has no model" % name)


class _Bound(object):
    def __init__(self, hooks, obj, name):
        self.hooks, self.obj, self.name = hooks, obj, name
        self.__name__ = name


_FMT = {"B": (1, False), "b": (1, True), "H": (2, False), "h": (2, True), "I": (4, False), "i": (4, True),
        "L": (4, False), "l": (4, True), "Q": (8, False), "q": (8, True)}


def _parse_fmt(o, fmt):
    if isinstance(fmt, bytes):
        fmt = fmt.decode()
    order = "<"
    if fmt and fmt[0] in "<>=!@":
        order = fmt[0]
        fmt = fmt[1:]
    if order in "=@":
        order = "<"       # host is little-endian x86-64 (stated assumption)
    if order == "!":
        order = ">"
    out = []
    num = ""
    for c in fmt:
        if c.isdigit():
            num += c
            continue
        if c not in _FMT:
            raise Unsupported("struct format %r" % c)
        for _ in range(int(num) if num else 1):
            out.append(_FMT[c])
        num = ""
    return order, out


def pack_model(o, fmt, vals):
    order, items = _parse_fmt(o, fmt)
    if len(items) != len(vals):
        raise o.pyvc.Raised(_struct.error("pack expected %d items for packing (got %d)" % (len(items), len(vals))))
    out = []
    for (size, signed), v in zip(items, vals):
        v = b2i(v) if is_sym(v) else v
        lo, hi = (-(1 << (8 * size - 1)), (1 << (8 * size - 1)) - 1) if signed else (0, (1 << (8 * size)) - 1)
        if o.truth(Or(mk_cmp("lt", v, lo), mk_cmp("lt", hi, v))):
            raise o.pyvc.Raised(_struct.error("argument out of range"))
        if signed:
            v = mk_int("mod", v, 1 << (8 * size))
        bs = [mk_int("mod", mk_int("floordiv", v, 1 << (8 * i)), 256) for i in range(size)]
        if order == ">":
            bs.reverse()
        out.extend(bs)
    return mk_bytes(out)


def unpack_model(o, fmt, data):
    order, items = _parse_fmt(o, fmt)
    total = sum(s for s, _ in items)
    if total != len(data):
        raise o.pyvc.Raised(_struct.error("unpack requires a buffer of %d bytes" % total))
    out = []
    pos = 0
    for size, signed in items:
        bs = data[pos:pos + size]
        pos += size
        if order == ">":
            bs = list(reversed(bs))
        v = 0
        for i, x in enumerate(bs):
            v = mk_int("add", v, mk_int("mul", x, 1 << (8 * i)))
        if signed:
            v = Ite(mk_cmp("le", 1 << (8 * size - 1), v), mk_int("sub", v, 1 << (8 * size)), v)
        out.append(v)
    return tuple(out)
