"""Discharge: term IR -> z3 (integer encoding with bit-vector bridges), rlimit-bounded, cvc5 CLI fallback.

Integer encoding ("int"): Python ints are z3 Ints.
  a // b, a % b   floor semantics (Python); b == 0 is the *caller's* problem (pyvc forks a ZeroDivisionError path
                  before building the term), here the value is then unconstrained-but-total as in SMT-LIB.
  x & (2^k-1)     -> x mod 2^k ;  x >> k, x << k with constant k -> div / mul by 2^k
  x << s, x >> s  with symbolic s of static range [0, S], S <= 512 -> case split on s (ite chain)
  general & | ^   -> int2bv / bv2int at a width chosen from the static bounds of both operands (two's complement,
                  signed read-back when an operand may be negative).  No bounds -> EncodingUnsupported (undecided).
  pow             -> small constant exponent expanded; 2**s with bounded s as the shift; otherwise uninterpreted `pow`.
"""
from __future__ import annotations

import os
import subprocess
import tempfile
import time

import z3

from .terms import EncodingUnsupported, bounds, refine_bounds, sort_of

DEFAULT_RLIMIT = int(os.environ.get("VERIF_RLIMIT", "20000000"))
MAX_SHIFT_SPLIT = 520


class Encoder(object):
    def __init__(self):
        self.memo = {}
        self.bmemo = {}
        self.vars = {}
        self.ufs = {}
        self.side = []      # definitional side constraints (none at the moment, kept for extensions)

    # -- helpers ---------------------------------------------------------------------------------------
    def var(self, t):
        name, sort = t[1], t[2]
        v = self.vars.get(name)
        if v is None:
            v = z3.Bool(name) if sort == "B" else z3.Int(name)
            self.vars[name] = v
        return v

    def _pow2(self, s_term, s_z3):
        lo, hi = bounds(s_term, self.bmemo)
        if lo is not None and lo < 0:
            lo = 0          # the interpreter has forked the "negative shift count" path before building the term
        if lo is None or hi is None or lo < 0 or hi > MAX_SHIFT_SPLIT:
            raise EncodingUnsupported("shift amount without small static range: %r..%r" % (lo, hi))
        r = z3.IntVal(1 << hi)
        for k in range(hi - 1, lo - 1, -1):
            r = z3.If(s_z3 == k, z3.IntVal(1 << k), r)
        return r

    def _floordiv(self, a, b, bt):
        if isinstance(bt, int):
            if bt > 0:
                return a / b
            if bt < 0:
                return (-a) / (-b)
        lo, hi = bounds(bt, self.bmemo)
        if lo is not None and lo > 0:
            return a / b
        if hi is not None and hi < 0:
            return (-a) / (-b)
        return z3.If(b > 0, a / b, (-a) / (-b))

    def _bitop(self, op, t):
        at, bt = t[1], t[2]
        a, b = self.enc(at), self.enc(bt)
        # mask special case
        if op == "and":
            for (xt, x, yt, y) in ((at, a, bt, b), (bt, b, at, a)):
                if isinstance(yt, int) and yt >= 0 and (yt & (yt + 1)) == 0:
                    return x % z3.IntVal(yt + 1)
                if isinstance(yt, int) and yt < 0 and ((-yt) & (-yt - 1)) == 0:
                    # x & -(2^k)  ==  x - (x mod 2^k)      (two's complement, any sign of x)
                    return x - x % z3.IntVal(-yt)
                if isinstance(yt, int) and yt > 0:
                    low = yt & -yt                       # 2^k
                    run = yt // low
                    if (run & (run + 1)) == 0:
                        # contiguous run of ones (2^m - 1) << k :  (x mod 2^(m+k)) - (x mod 2^k)
                        return x % z3.IntVal((run + 1) * low) - x % z3.IntVal(low)
        (al, ah), (bl, bh) = bounds(at, self.bmemo), bounds(bt, self.bmemo)
        if al == 0 and bl == 0 and ah is not None and bh is not None and ah <= 1 and bh <= 1:
            # one-bit operands
            if op == "and":
                return a * b
            if op == "or":
                return a + b - a * b
            return (a + b) % z3.IntVal(2)
        if op in ("or", "xor"):
            # disjoint bit ranges: (t << k) | y  with 0 <= y < 2^k  is an addition
            for (xt, x, yt, y, yl, yh) in ((at, a, bt, b, bl, bh), (bt, b, at, a, al, ah)):
                k = None
                if not isinstance(xt, (int, bool)) and xt[0] == "shl" and isinstance(xt[2], int):
                    k = xt[2]
                elif not isinstance(xt, (int, bool)) and xt[0] == "mul":
                    for c in (xt[1], xt[2]):
                        if isinstance(c, int) and c > 0 and (c & (c - 1)) == 0:
                            k = c.bit_length() - 1
                if k is not None and yl is not None and yh is not None and yl >= 0 and yh < (1 << k):
                    return x + y
        if op == "and":
            # one non-negative bounded operand is enough to bound the result: reduce the other modulo 2^n
            for (xt, x, xl, xh, yt, y, yl, yh) in ((at, a, al, ah, bt, b, bl, bh), (bt, b, bl, bh, at, a, al, ah)):
                if yl is not None and yl >= 0 and yh is not None and (xl is None or xh is None or xl < 0):
                    n = max(yh.bit_length(), 1)
                    return z3.BV2Int(z3.Int2BV(x, n) & z3.Int2BV(y, n), False)
        if None in (al, ah, bl, bh):
            raise EncodingUnsupported("bit operation %s on operands without static bounds" % op)
        signed = al < 0 or bl < 0
        n = max(abs(al), abs(ah) + 1, abs(bl), abs(bh) + 1).bit_length() + (1 if signed else 0)
        n = max(n, 1)
        xa, xb = z3.Int2BV(a, n), z3.Int2BV(b, n)
        if op == "and":
            r = xa & xb
        elif op == "or":
            r = xa | xb
        else:
            r = xa ^ xb
        return z3.BV2Int(r, signed)

    # -- main ------------------------------------------------------------------------------------------
    def enc(self, t):
        if isinstance(t, bool):
            return z3.BoolVal(t)
        if isinstance(t, int):
            return z3.IntVal(t)
        k = id(t)
        r = self.memo.get(k)
        if r is not None:
            return r[1]
        r = self._enc(t)
        self.memo[k] = (t, r)   # keep t alive so that id() stays unique
        return r

    def _enc(self, t):
        op = t[0]
        if op == "var":
            return self.var(t)
        if op == "b2i":
            return z3.If(self.enc(t[1]), z3.IntVal(1), z3.IntVal(0))
        if op == "not":
            return z3.Not(self.enc(t[1]))
        if op == "andb":
            return z3.And(*[self.enc(x) for x in t[1:]])
        if op == "orb":
            return z3.Or(*[self.enc(x) for x in t[1:]])
        if op == "iff":
            return self.enc(t[1]) == self.enc(t[2])
        if op in ("ite", "iteb"):
            return z3.If(self.enc(t[1]), self.enc(t[2]), self.enc(t[3]))
        if op in ("uf", "ufb"):
            name, args = t[1], t[2:]
            key = (name, len(args), op)
            f = self.ufs.get(key)
            if f is None:
                sig = [z3.IntSort()] * len(args) + [z3.BoolSort() if op == "ufb" else z3.IntSort()]
                f = z3.Function(name, *sig)
                self.ufs[key] = f
            eargs = []
            for x in args:
                e = self.enc(x)
                if sort_of(x) == "B":
                    e = z3.If(e, z3.IntVal(1), z3.IntVal(0))
                eargs.append(e)
            return f(*eargs)
        if op in ("and", "or", "xor"):
            return self._bitop(op, t)
        a, b = self.enc(t[1]), self.enc(t[2])
        if op == "eq":
            return a == b
        if op == "lt":
            return a < b
        if op == "le":
            return a <= b
        if op == "add":
            return a + b
        if op == "sub":
            return a - b
        if op == "mul":
            return a * b
        if op == "floordiv":
            return self._floordiv(a, b, t[2])
        if op == "mod":
            return a - b * self._floordiv(a, b, t[2])
        if op == "shl":
            if isinstance(t[2], int):
                if t[2] < 0:
                    raise EncodingUnsupported("negative shift")
                return a * z3.IntVal(1 << t[2])
            return a * self._pow2(t[2], b)
        if op == "shr":
            if isinstance(t[2], int):
                if t[2] < 0:
                    raise EncodingUnsupported("negative shift")
                return a / z3.IntVal(1 << t[2])
            lo, hi = bounds(t[2], self.bmemo)
            if hi is None or hi > MAX_SHIFT_SPLIT:
                # unbounded count: a value of at most K bits is shifted out entirely by K or more
                al, ah = bounds(t[1], self.bmemo)
                if al is None or ah is None:
                    raise EncodingUnsupported("shift of an unbounded value by an unbounded count")
                K = max(abs(al).bit_length(), abs(ah).bit_length()) + 1
                if K > MAX_SHIFT_SPLIT:
                    raise EncodingUnsupported("shift of a very wide value by an unbounded count")
                r = z3.If(a < 0, z3.IntVal(-1), z3.IntVal(0))
                for k in range(K, -1, -1):
                    r = z3.If(b == k, a / z3.IntVal(1 << k), r)
                return r
            return a / self._pow2(t[2], b)
        if op == "pow":
            if isinstance(t[2], int) and 0 <= t[2] <= 8:
                r = z3.IntVal(1)
                for _ in range(t[2]):
                    r = r * a
                return r
            if isinstance(t[1], int) and t[1] == 2:
                return self._pow2(t[2], b)
            key = ("pow", 2, "uf")
            f = self.ufs.get(key)
            if f is None:
                f = z3.Function("pow", z3.IntSort(), z3.IntSort(), z3.IntSort())
                self.ufs[key] = f
            return f(a, b)
        raise EncodingUnsupported("operator %s" % op)



class BVEncoder(object):
    """Exact bit-vector encoding of the term IR at one generous width W: every integer sub-term has static bounds (from
    the declared ranges of the variables), W is chosen so that every one of them fits in W-bit two's complement, hence no
    operation can overflow and the encoding is exact, not an approximation.  Used for bit-level obligations
    (& | ^ between symbolic operands, shifts by symbolic counts) where the integer encoding needs int2bv bridges."""

    def __init__(self, terms):
        self.bmemo = {}
        self.memo = {}
        self.vars = {}
        self.ufs = {}
        refine_bounds(terms, self.bmemo)
        need = 2
        seen = set()
        stack = list(terms)
        while stack:
            t = stack.pop()
            if isinstance(t, bool) or t is None or isinstance(t, str):
                continue
            if isinstance(t, int):
                need = max(need, abs(t).bit_length() + 2)
                continue
            if id(t) in seen:
                continue
            seen.add(id(t))
            op = t[0]
            if op == "var":
                if t[2] == "I":
                    if t[3] is None or t[4] is None:
                        raise EncodingUnsupported("bv: unbounded variable %s" % t[1])
                    need = max(need, abs(t[3]).bit_length() + 2, abs(t[4]).bit_length() + 2)
                continue
            if op == "mod" and isinstance(t[2], int) and t[2] > 0 and isinstance(t[1], tuple) and t[1][0] == "uf":
                # f(args) mod m: only the residue of the uninterpreted value is observed -> a function into [0, m)
                need = max(need, t[2].bit_length() + 2)
                stack.extend(x for x in t[1][2:])
                continue
            if op in ("uf", "ufb"):
                raise EncodingUnsupported("bv: uninterpreted function outside a `mod m` context")
            if op == "pow" and not (isinstance(t[2], int) and 0 <= t[2] <= 8):
                raise EncodingUnsupported("bv: pow")
            if sort_of(t) == "I":
                lo, hi = bounds(t, self.bmemo)
                if lo is None or hi is None:
                    raise EncodingUnsupported("bv: sub-term without static bounds (%s)" % op)
                need = max(need, abs(lo).bit_length() + 2, abs(hi).bit_length() + 2)
            stack.extend(x for x in t[1:] if not isinstance(x, (str, type(None))))
        if need > 1100:
            raise EncodingUnsupported("bv: width %d too large" % need)
        self.W = need

    def c(self, v):
        return z3.BitVecVal(v, self.W)

    def enc(self, t):
        if isinstance(t, bool):
            return z3.BoolVal(t)
        if isinstance(t, int):
            return self.c(t)
        k = id(t)
        r = self.memo.get(k)
        if r is not None:
            return r[1]
        r = self._enc(t)
        self.memo[k] = (t, r)
        return r

    def _floordiv(self, a, b, at, bt):
        (al, ah), (bl, bh) = bounds(at, self.bmemo), bounds(bt, self.bmemo)
        if isinstance(bt, int) and bt > 0 and (bt & (bt - 1)) == 0:
            return a >> (bt.bit_length() - 1), a & self.c(bt - 1)
        if al is not None and al >= 0 and bl is not None and bl > 0:
            return z3.UDiv(a, b), z3.URem(a, b)
        q = a / b
        r = z3.SRem(a, b)
        adj = z3.And(r != self.c(0), (r < self.c(0)) != (b < self.c(0)))
        return z3.If(adj, q - self.c(1), q), z3.If(adj, r + b, r)

    def _enc(self, t):
        op = t[0]
        if op == "var":
            v = self.vars.get(t[1])
            if v is None:
                v = z3.Bool(t[1]) if t[2] == "B" else z3.BitVec(t[1], self.W)
                self.vars[t[1]] = v
            return v
        if op == "b2i":
            return z3.If(self.enc(t[1]), self.c(1), self.c(0))
        if op == "not":
            return z3.Not(self.enc(t[1]))
        if op == "andb":
            return z3.And(*[self.enc(x) for x in t[1:]])
        if op == "orb":
            return z3.Or(*[self.enc(x) for x in t[1:]])
        if op == "iff":
            return self.enc(t[1]) == self.enc(t[2])
        if op in ("ite", "iteb"):
            return z3.If(self.enc(t[1]), self.enc(t[2]), self.enc(t[3]))
        if op == "mod" and isinstance(t[2], int) and t[2] > 0 and isinstance(t[1], tuple) and t[1][0] == "uf":
            name, args = t[1][1], t[1][2:]
            key = (name, len(args), t[2])
            f = self.ufs.get(key)
            if f is None:
                f = z3.Function("%s_mod%d" % (name, t[2]), *([z3.BitVecSort(self.W)] * (len(args) + 1)))
                self.ufs[key] = f
            v = f(*[self.enc(x) for x in args])
            return z3.URem(v, self.c(t[2]))
        a, b = self.enc(t[1]), self.enc(t[2])
        if op == "eq": return a == b
        if op == "lt": return a < b
        if op == "le": return a <= b
        if op == "add": return a + b
        if op == "sub": return a - b
        if op == "mul": return a * b
        if op == "and": return a & b
        if op == "or": return a | b
        if op == "xor": return a ^ b
        if op == "floordiv": return self._floordiv(a, b, t[1], t[2])[0]
        if op == "mod": return self._floordiv(a, b, t[1], t[2])[1]
        if op == "shl": return a << b
        if op == "shr": return a >> b
        if op == "pow":
            r = self.c(1)
            for _ in range(t[2]):
                r = r * a
            return r
        raise EncodingUnsupported("bv: operator %s" % op)


class Result(object):
    __slots__ = ("status", "model", "backend", "time", "reason")

    def __init__(self, status, model=None, backend="z3-int", time_=0.0, reason=""):
        self.status = status      # 'unsat' | 'sat' | 'unknown'
        self.model = model or {}
        self.backend = backend
        self.time = time_
        self.reason = reason

    def __repr__(self):
        return "Result(%s,%s,%.3fs %s)" % (self.status, self.backend, self.time, self.reason)


STATS = {"queries": 0, "time": 0.0, "z3": 0, "cvc5": 0, "unknown": 0}


def _model_to_dict(m, enc):
    out = {}
    for name, v in enc.vars.items():
        val = m.eval(v, model_completion=True)
        if z3.is_int_value(val):
            out[name] = val.as_long()
        elif z3.is_true(val):
            out[name] = True
        elif z3.is_false(val):
            out[name] = False
    return out


def _has_bitop(assertions):
    """2: bit-level operation between two symbolic operands (or a symbolic shift count) -> bit-vector encoding first;
    1: only masks with constants (the integer encoding turns them into mod/div) -> integer first, quickly, then bit-vector;
    0: none"""
    seen = set()
    stack = [a for a in assertions if not isinstance(a, bool)]
    score = 0
    while stack:
        t = stack.pop()
        if isinstance(t, (int, bool, str)) or t is None or id(t) in seen:
            continue
        seen.add(id(t))
        if t[0] in ("and", "or", "xor"):
            if not isinstance(t[1], int) and not isinstance(t[2], int):
                return 2
            score += 1
            if score > 6:
                return 2
        if t[0] in ("shl", "shr") and not isinstance(t[2], int):
            return 2
        if t[0] != "var":
            stack.extend(t[1:])
    return 1 if score else 0


def _check_int(assertions, rlimit, want_model):
    enc = Encoder()
    refine_bounds([a for a in assertions if not isinstance(a, bool)], enc.bmemo)
    try:
        zs = [enc.enc(a) for a in assertions if a is not True]
    except EncodingUnsupported as e:
        return Result("unknown", backend="none", reason="encoding: %s" % e), None, None
    s = z3.Solver()
    s.set("rlimit", rlimit)
    for z in zs:
        s.add(z)
    r = s.check()
    if r == z3.unsat:
        return Result("unsat", backend="z3-int"), s, enc
    if r == z3.sat:
        return Result("sat", _model_to_dict(s.model(), enc) if want_model else None, "z3-int"), s, enc
    return Result("unknown", backend="z3-int", reason=s.reason_unknown()), s, enc


def _check_bv(assertions, rlimit, want_model):
    try:
        enc = BVEncoder([a for a in assertions if not isinstance(a, bool)])
        zs = [enc.enc(a) for a in assertions if a is not True]
    except EncodingUnsupported as e:
        return Result("unknown", backend="none", reason="encoding: %s" % e)
    s = z3.Solver()
    s.set("rlimit", rlimit)
    for z in zs:
        s.add(z)
    r = s.check()
    if r == z3.unsat:
        return Result("unsat", backend="z3-bv%d" % enc.W)
    if r == z3.sat:
        m = s.model()
        out = {}
        for name, v in enc.vars.items():
            val = m.eval(v, model_completion=True)
            if z3.is_bv_value(val):
                out[name] = val.as_signed_long()
            elif z3.is_true(val):
                out[name] = True
            elif z3.is_false(val):
                out[name] = False
        return Result("sat", out, "z3-bv%d" % enc.W)
    return Result("unknown", backend="z3-bv", reason=s.reason_unknown())


def check(assertions, rlimit=None, want_model=True, use_cvc5=True):
    """Satisfiability of the conjunction of boolean terms.  Portfolio: integer encoding and exact wide bit-vector
    encoding (bit-level obligations first in BV), then cvc5 on the integer encoding."""
    t0 = time.time()
    STATS["queries"] += 1
    if any(a is False for a in assertions):
        return Result("unsat", backend="trivial", time_=0.0)
    rl = rlimit or DEFAULT_RLIMIT
    bit = _has_bitop(assertions)
    order = {2: (("bv", rl), ("int", rl // 4)), 1: (("int", rl // 20), ("bv", rl), ("int", rl)),
             0: (("int", rl), ("bv", rl))}[bit]
    last = None
    s_int = enc_int = None
    reasons = []
    for which, budget in order:
        if which == "int":
            r, s_int, enc_int = _check_int(assertions, budget, want_model)
        else:
            r = _check_bv(assertions, budget, want_model)
        if r.status in ("sat", "unsat"):
            r.time = time.time() - t0
            STATS["time"] += r.time
            STATS["z3"] += 1
            return r
        reasons.append("%s: %s" % (which, r.reason))
        last = r
    if use_cvc5 and s_int is not None:
        r2 = _cvc5(s_int, enc_int)
        if r2 is not None:
            STATS["cvc5"] += 1
            r2.time = time.time() - t0
            return r2
    if s_int is not None:
        # the same query in fresh solver processes (the in-process search depends on what the worker solved before)
        for cli in (["/usr/local/bin/z3-new", "-smt2", "rlimit=40000000"], ["/usr/bin/z3", "-smt2", "rlimit=40000000"]):
            r2 = _cvc5(s_int, enc_int, cmd=cli, name=os.path.basename(cli[0]) + "-cli")
            if r2 is not None:
                STATS["z3"] += 1
                STATS["retried"] = STATS.get("retried", 0) + 1
                r2.time = time.time() - t0
                return r2
    # last round: the search of z3 depends on what the process solved before (work is distributed dynamically over the workers),
    # so a query close to its budget may flip between runs -- give it 16 times the resources before calling it undecided
    for which, budget in order:
        if which == "int":
            r, s_int, enc_int = _check_int(assertions, budget * 16, want_model)
        else:
            r = _check_bv(assertions, budget * 16, want_model)
        if r.status in ("sat", "unsat"):
            r.time = time.time() - t0
            STATS["time"] += r.time
            STATS["z3"] += 1
            STATS["retried"] = STATS.get("retried", 0) + 1
            return r
        reasons.append("%s(x16): %s" % (which, r.reason))
    STATS["unknown"] += 1
    dt = time.time() - t0
    STATS["time"] += dt
    return Result("unknown", backend="z3-int+z3-bv+cvc5", time_=dt, reason="; ".join(reasons))


CVC5 = "/usr/bin/cvc5"


def _cvc5(solver, enc, cmd=None, name="cvc5"):
    if not os.path.exists(cmd[0] if cmd else CVC5):
        return None
    txt = solver.to_smt2()
    if cmd is None:
        txt = txt.replace("bv2int", "bv2nat")
        txt = "(set-logic ALL)\n(set-option :produce-models true)\n" + txt
    names = list(enc.vars)
    if names:
        txt += "\n(get-value (%s))\n" % " ".join("|%s|" % n if not n.replace("_", "a").isalnum() else n for n in names)
    with tempfile.NamedTemporaryFile("w", suffix=".smt2", delete=False) as f:
        f.write(txt)
        path = f.name
    try:
        p = subprocess.run((cmd or [CVC5, "--rlimit=%d" % 4000000]) + [path], capture_output=True, text=True, timeout=1200)      # the resource limit is the (deterministic) budget; the wall clock is a safety net sized for a loaded machine
        out = p.stdout.strip().splitlines()
    except Exception:
        return None
    finally:
        os.unlink(path)
    if not out:
        return None
    if out[0] == "unsat":
        return Result("unsat", backend=name)
    if out[0] == "sat":
        model = {}
        import re
        body = "\n".join(out[1:])
        for m in re.finditer(r"\(\|?([A-Za-z0-9_!.$@#]+)\|?\s+(\(-\s+(\d+)\)|(\d+)|true|false)\)", body):
            name = m.group(1)
            if m.group(3):
                model[name] = -int(m.group(3))
            elif m.group(4):
                model[name] = int(m.group(4))
            else:
                model[name] = m.group(2) == "true"
        return Result("sat", model, name)
    return None


class Incremental(object):
    """Path-condition solver used by the interpreter for branch feasibility.  Integer encoding, one incremental z3
    solver; as soon as the path condition contains a bit-level operation between symbolic operands the query goes to the
    exact bit-vector encoding first (non-incremental), falling back to the integer solver."""

    def __init__(self, rlimit=None):
        self.enc = Encoder()
        self.s = z3.Solver()
        self.rl = rlimit or 2000000
        self.s.set("rlimit", self.rl)
        self.feas_ms = int(os.environ.get("VERIF_FEAS_MS", "4000"))
        self.s.set("timeout", self.feas_ms)
        self.broken = None
        self.pc = []
        self.has_bit = 0

    def add(self, t):
        if t is True:
            return
        self.pc.append(t)
        if self.has_bit < 2:
            self.has_bit = max(self.has_bit, _has_bitop([t]))
        try:
            self.s.add(self.enc.enc(t))
        except EncodingUnsupported as e:
            # cannot express: path condition is weakened (sound for proving, may explore infeasible paths)
            self.broken = str(e)

    def model_value(self, t):
        """value of term t in some model of the path condition (None if the path condition is unsatisfiable)"""
        r = check(list(self.pc), rlimit=self.rl * 4, want_model=True, use_cvc5=False)
        if r.status == "unsat":
            return None
        if r.status != "sat":
            from .path import Unsupported
            raise Unsupported("cannot find a model of the path condition to pick a value (%s)" % r.reason)
        from .terms import eval_term
        return eval_term(t, r.model)

    def feasible(self, t):
        """'sat' | 'unsat' | 'unknown' for PC and t"""
        if t is False:
            return "unsat"
        STATS["queries"] += 1
        t0 = time.time()
        try:
            bit = max(self.has_bit, _has_bitop([t]) if t is not True else 0)
            if bit == 2:
                r = _check_bv(self.pc + ([t] if t is not True else []), self.rl, False)
                if r.status in ("sat", "unsat"):
                    return r.status
            if t is True:
                extra = []
            else:
                try:
                    extra = [self.enc.enc(t)]
                except EncodingUnsupported:
                    return "unknown"
            if bit == 1:
                self.s.set("timeout", 400)
            r = self.s.check(*extra)
            if bit == 1:
                self.s.set("timeout", self.feas_ms)
                if r == z3.unknown:
                    self.has_bit = 2       # the integer solver struggles with this path's masks: bit-vectors first from now on
                    r2 = _check_bv(self.pc + ([t] if t is not True else []), self.rl, False)
                    if r2.status in ("sat", "unsat"):
                        return r2.status
                    r = self.s.check(*extra)
            if r == z3.sat:
                return "sat"
            if r == z3.unsat:
                return "unsat"
            return "unknown"
        finally:
            STATS["time"] += time.time() - t0
