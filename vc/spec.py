"""SPEC -- the reference semantics of miasm's IR that every contract talks about (DESIGN.md 3.5).

Written from the property statements and the operator documentation, independently of miasm's rewriting code.
One generic definition (`sem_op`, `sem`) is instantiated over two algebras:

  * IntAlg  : values are integers in [0, 2^w) (Python ints or term-IR SymInt): used for pyvc obligations and, on
              concrete ints, as the concrete evaluator of replays;
  * BVAlg   : values are z3 bit-vectors: used to validate translator output and rule templates.

Undefined in SPEC (obligations carry the side condition): division / remainder by zero.
"""
from __future__ import annotations

import z3

from .terms import (And, Eq, Ite, Max, Min, Not, Or, SymBool, SymInt, UF, b2i, is_sym, mk_cmp, mk_int, tobool)

ASSOC = ("+", "*", "^", "&", "|")
CMP = ("==", "<u", "<s", "<=u", "<=s")
FLAGS2 = ("FLAG_EQ_AND", "FLAG_EQ_CMP", "FLAG_SIGN_SUB", "FLAG_SIGN_ADD", "FLAG_ADD_CF", "FLAG_SUB_CF", "FLAG_ADD_OF",
          "FLAG_SUB_OF")
FLAGS3 = ("FLAG_EQ_ADDWC", "FLAG_EQ_SUBWC", "FLAG_SIGN_ADDWC", "FLAG_SIGN_SUBWC", "FLAG_ADDWC_CF", "FLAG_ADDWC_OF",
          "FLAG_SUBWC_CF", "FLAG_SUBWC_OF")
CC = {"CC_U<=": 2, "CC_U>=": 1, "CC_S<": 2, "CC_S>": 3, "CC_S<=": 3, "CC_S>=": 2, "CC_U>": 2, "CC_U<": 1, "CC_NEG": 1,
      "CC_EQ": 1, "CC_NE": 1, "CC_POS": 1, "CC_sOVR": 1, "CC_sNOOVR": 1}
BINARY = ("/", "%", "udiv", "umod", "sdiv", "smod", "**", "<<", ">>", "a>>", "<<<", ">>>")
UNARY = ("-", "parity", "cntleadzeros", "cnttrailzeros")
DIVS = ("/", "%", "udiv", "umod", "sdiv", "smod")


def result_width(op, widths):
    """SPEC width of op applied to operands of the given widths (well-formedness table)"""
    if op in CMP or op == "parity" or op.startswith("FLAG_") or op in CC:
        return 1
    if op.startswith("zeroExt_") or op.startswith("signExt_"):
        return int(op[8:])
    return widths[0]


def arity_ok(op, n):
    if op in ASSOC:
        return n >= 2
    if op in BINARY or op in CMP or op in FLAGS2:
        return n == 2
    if op in FLAGS3:
        return n == 3
    if op in CC:
        return n == CC[op]
    if op == "FLAG_EQ":
        return n == 1
    if op in UNARY or op.startswith("zeroExt_") or op.startswith("signExt_"):
        return n == 1
    return True


class IntAlg(object):
    """integers modulo 2^w; every value handed around is the canonical representative in [0, 2^w)"""
    name = "int"

    def const(self, v, w): return v % (1 << w)
    def wrap(self, v, w): return mk_int("mod", v, 1 << w)
    def add(self, a, b, w): return self.wrap(mk_int("add", a, b), w)
    def sub(self, a, b, w): return self.wrap(mk_int("sub", a, b), w)
    def mul(self, a, b, w): return self.wrap(mk_int("mul", a, b), w)
    def neg(self, a, w): return self.wrap(mk_int("sub", 0, a), w)
    def and_(self, a, b, w): return mk_int("and", a, b)
    def or_(self, a, b, w): return mk_int("or", a, b)
    def xor(self, a, b, w): return mk_int("xor", a, b)
    def not_(self, a, w): return mk_int("sub", (1 << w) - 1, a)
    def udiv(self, a, b, w): return mk_int("floordiv", a, b)
    def urem(self, a, b, w): return mk_int("mod", a, b)
    def to_signed(self, a, w): return Ite(mk_cmp("le", 1 << (w - 1), a), mk_int("sub", a, 1 << w), a)

    def sdiv(self, a, b, w):
        sa, sb = self.to_signed(a, w), self.to_signed(b, w)
        q = mk_int("floordiv", _abs(sa), _abs(sb))
        neg = Not(Eq(mk_cmp("lt", sa, 0), mk_cmp("lt", sb, 0)))
        return self.wrap(Ite(neg, mk_int("sub", 0, q), q), w)

    def srem(self, a, b, w):
        sa, sb = self.to_signed(a, w), self.to_signed(b, w)
        r = mk_int("mod", _abs(sa), _abs(sb))
        return self.wrap(Ite(mk_cmp("lt", sa, 0), mk_int("sub", 0, r), r), w)

    def pow(self, a, b, w):
        if isinstance(a, int) and isinstance(b, int):
            return pow(a, b, 1 << w)
        return self.wrap(mk_int("pow", a, b), w)
    def shl(self, a, s, w): return Ite(mk_cmp("le", w, s), 0, self.wrap(mk_int("shl", a, Min(s, w)), w))
    def lshr(self, a, s, w): return Ite(mk_cmp("le", w, s), 0, mk_int("shr", a, Min(s, w)))

    def ashr(self, a, s, w):
        sa = self.to_signed(a, w)
        return self.wrap(mk_int("shr", sa, Min(s, w)), w)

    def eq(self, a, b, w): return Eq(a, b)
    def ult(self, a, b, w): return mk_cmp("lt", a, b)
    def ule(self, a, b, w): return mk_cmp("le", a, b)
    def slt(self, a, b, w): return mk_cmp("lt", self.to_signed(a, w), self.to_signed(b, w))
    def sle(self, a, b, w): return mk_cmp("le", self.to_signed(a, w), self.to_signed(b, w))
    def ite(self, c, a, b, w): return Ite(c, a, b)
    def b2v(self, c): return b2i(tobool(c))              # bool -> 1-bit value
    def nz(self, a, w): return Not(Eq(a, 0))              # value != 0
    def zext(self, a, w, n): return a
    def sext(self, a, w, n): return self.wrap(self.to_signed(a, w), n)
    def extract(self, a, w, lo, hi): return mk_int("mod", mk_int("shr", a, lo), 1 << (hi - lo))
    def concat(self, parts):                               # [(value, width)] LSB first
        r, off = 0, 0
        for v, w in parts:
            r = mk_int("add", r, mk_int("mul", v, 1 << off))
            off += w
        return r
    def bit(self, a, i): return mk_int("mod", mk_int("shr", a, i), 2)
    def uf(self, name, args, w): return self.wrap(UF(name, *args), w)


def _abs(x):
    return Ite(mk_cmp("lt", x, 0), mk_int("sub", 0, x), x)


class BVAlg(object):
    name = "bv"

    def const(self, v, w): return z3.BitVecVal(v % (1 << w), w)
    def add(self, a, b, w): return a + b
    def sub(self, a, b, w): return a - b
    def mul(self, a, b, w): return a * b
    def neg(self, a, w): return -a
    def and_(self, a, b, w): return a & b
    def or_(self, a, b, w): return a | b
    def xor(self, a, b, w): return a ^ b
    def not_(self, a, w): return ~a
    def udiv(self, a, b, w): return z3.UDiv(a, b)
    def urem(self, a, b, w): return z3.URem(a, b)
    def sdiv(self, a, b, w): return a / b                 # bvsdiv: truncates toward zero
    def srem(self, a, b, w): return z3.SRem(a, b)         # bvsrem: sign follows the dividend

    def pow(self, a, b, w):
        f = z3.Function("spec_pow_%d" % w, z3.BitVecSort(w), z3.BitVecSort(w), z3.BitVecSort(w))
        return f(a, b)

    def shl(self, a, s, w): return a << s                  # SMT-LIB: 0 for counts >= w
    def lshr(self, a, s, w): return z3.LShR(a, s)
    def ashr(self, a, s, w): return a >> s                 # bvashr: sign fill for counts >= w
    def eq(self, a, b, w): return a == b
    def ult(self, a, b, w): return z3.ULT(a, b)
    def ule(self, a, b, w): return z3.ULE(a, b)
    def slt(self, a, b, w): return a < b
    def sle(self, a, b, w): return a <= b
    def ite(self, c, a, b, w): return z3.If(c, a, b)
    def b2v(self, c): return z3.If(c, z3.BitVecVal(1, 1), z3.BitVecVal(0, 1))
    def nz(self, a, w): return a != z3.BitVecVal(0, w)
    def zext(self, a, w, n): return z3.ZeroExt(n - w, a) if n > w else a
    def sext(self, a, w, n): return z3.SignExt(n - w, a) if n > w else a
    def extract(self, a, w, lo, hi): return z3.Extract(hi - 1, lo, a)
    def concat(self, parts):
        vs = [v for v, _ in parts]
        if len(vs) == 1:
            return vs[0]
        return z3.Concat(*reversed(vs))
    def bit(self, a, i): return z3.Extract(i, i, a)
    def uf(self, name, args, w):
        f = z3.Function("spec_" + name, *([a.sort() for a in args] + [z3.BitVecSort(w)]))
        return f(*args)


INT = IntAlg()
BV = BVAlg()


class Undefined(Exception):
    pass


def sem_op(A, op, args, widths):
    """value of op(args) -- args already evaluated, widths their bit widths.  Returns (value, width)."""
    w = widths[0] if widths else None
    rw = result_width(op, widths)
    n = len(args)
    if op in ASSOC:
        f = {"+": A.add, "*": A.mul, "^": A.xor, "&": A.and_, "|": A.or_}[op]
        r = args[0]
        for x in args[1:]:
            r = f(r, x, w)
        return r, w
    if op == "-":
        if n == 1:
            return A.neg(args[0], w), w
        return A.sub(args[0], args[1], w), w
    if op in ("/", "udiv"):
        return A.udiv(args[0], args[1], w), w
    if op in ("%", "umod"):
        return A.urem(args[0], args[1], w), w
    if op == "sdiv":
        return A.sdiv(args[0], args[1], w), w
    if op == "smod":
        return A.srem(args[0], args[1], w), w
    if op == "**":
        return A.pow(args[0], args[1], w), w
    if op == "<<":
        return A.shl(args[0], args[1], w), w
    if op == ">>":
        return A.lshr(args[0], args[1], w), w
    if op == "a>>":
        return A.ashr(args[0], args[1], w), w
    if op in ("<<<", ">>>"):
        if w == 1:
            return args[0], w
        s = A.urem(args[1], A.const(w, w), w)
        inv = A.sub(A.const(w, w), s, w)
        if op == "<<<":
            r = A.or_(A.shl(args[0], s, w), A.lshr(args[0], inv, w), w)
        else:
            r = A.or_(A.lshr(args[0], s, w), A.shl(args[0], inv, w), w)
        return r, w
    if op == "parity":
        nb = min(8, w)
        x = A.bit(args[0], 0)
        for i in range(1, nb):
            x = _xor1(A, x, A.bit(args[0], i))
        return _not1(A, x), 1
    if op == "cntleadzeros":
        r = A.const(w, w)
        for i in range(0, w):           # highest set bit wins
            r = A.ite(_bit_set(A, args[0], i), A.const(w - 1 - i, w), r, w)
        return r, w
    if op == "cnttrailzeros":
        r = A.const(w, w)
        for i in range(w - 1, -1, -1):  # lowest set bit wins
            r = A.ite(_bit_set(A, args[0], i), A.const(i, w), r, w)
        return r, w
    if op.startswith("zeroExt_"):
        return A.zext(args[0], w, rw), rw
    if op.startswith("signExt_"):
        return A.sext(args[0], w, rw), rw
    if op == "==":
        return A.b2v(A.eq(args[0], args[1], w)), 1
    if op == "<u":
        return A.b2v(A.ult(args[0], args[1], w)), 1
    if op == "<=u":
        return A.b2v(A.ule(args[0], args[1], w)), 1
    if op == "<s":
        return A.b2v(A.slt(args[0], args[1], w)), 1
    if op == "<=s":
        return A.b2v(A.sle(args[0], args[1], w)), 1
    if op.startswith("FLAG_"):
        return sem_flag(A, op, args, widths), 1
    if op in CC:
        return sem_cc(A, op, args), 1
    # everything else: uninterpreted function of the argument values (congruence only)
    return A.uf("op_" + _mangle(op) + "_" + "_".join(str(x) for x in widths), list(args), rw), rw


def _mangle(s):
    return "".join(c if c.isalnum() else "_%02x" % ord(c) for c in s)


def _bit_set(A, a, i):
    b = A.bit(a, i)
    if A is INT:
        return Eq(b, 1)
    return b == z3.BitVecVal(1, 1)


def _xor1(A, a, b):
    if A is INT:
        return mk_int("mod", mk_int("add", a, b), 2)
    return a ^ b


def _not1(A, a):
    if A is INT:
        return mk_int("sub", 1, a)
    return ~a


def sem_flag(A, op, args, widths):
    w = widths[0]
    a = args[0]
    if op == "FLAG_EQ":
        return A.b2v(A.eq(a, A.const(0, w), w))
    b = args[1]
    c = None
    if op in FLAGS3:
        c = A.zext(args[2], widths[2], w)
    n = w + 2
    za, zb = A.zext(a, w, n), A.zext(b, w, n)
    sa, sb = A.sext(a, w, n), A.sext(b, w, n)
    zc = A.zext(args[2], widths[2], n) if c is not None else A.const(0, n)
    if op == "FLAG_EQ_AND":
        return A.b2v(A.eq(A.and_(a, b, w), A.const(0, w), w))
    if op == "FLAG_EQ_CMP":
        return A.b2v(A.eq(a, b, w))
    add_w = A.add(A.add(a, b, w), c if c is not None else A.const(0, w), w)
    sub_w = A.sub(a, A.add(b, c if c is not None else A.const(0, w), w), w)
    if op in ("FLAG_SIGN_ADD", "FLAG_SIGN_ADDWC"):
        return A.extract(add_w, w, w - 1, w)
    if op in ("FLAG_SIGN_SUB", "FLAG_SIGN_SUBWC"):
        return A.extract(sub_w, w, w - 1, w)
    if op == "FLAG_EQ_ADDWC":
        return A.b2v(A.eq(add_w, A.const(0, w), w))
    if op == "FLAG_EQ_SUBWC":
        return A.b2v(A.eq(sub_w, A.const(0, w), w))
    if op in ("FLAG_ADD_CF", "FLAG_ADDWC_CF"):
        # carry out of the w-bit addition
        full = A.add(A.add(za, zb, n), zc, n)
        return A.b2v(A.ule(A.const(1 << w, n), full, n))
    if op in ("FLAG_SUB_CF", "FLAG_SUBWC_CF"):
        # borrow: a < b + c as natural numbers
        return A.b2v(A.ult(za, A.add(zb, zc, n), n))
    if op in ("FLAG_ADD_OF", "FLAG_ADDWC_OF"):
        full = A.add(A.add(sa, sb, n), zc, n)
        return A.b2v(_out_of_signed_range(A, full, n, w))
    if op in ("FLAG_SUB_OF", "FLAG_SUBWC_OF"):
        full = A.sub(A.sub(sa, sb, n), zc, n)
        return A.b2v(_out_of_signed_range(A, full, n, w))
    raise KeyError(op)


def _out_of_signed_range(A, full, n, w):
    """full (n bits, read signed) does not fit in w signed bits"""
    lo = A.const(-(1 << (w - 1)), n)
    hi = A.const((1 << (w - 1)) - 1, n)
    if A is INT:
        return Or(A.slt(full, lo, n), A.slt(hi, full, n))
    return z3.Or(full < lo, full > hi)


def sem_cc(A, op, args):
    def o(x, y): return A.or_(x, y, 1)
    def x_(x, y): return A.xor(x, y, 1)
    def n_(x): return A.not_(x, 1)
    if op == "CC_U<=": return o(args[0], args[1])
    if op == "CC_U>=": return n_(args[0])
    if op == "CC_S<": return x_(args[0], args[1])
    if op == "CC_S>": return n_(o(args[2], x_(args[0], args[1])))
    if op == "CC_S<=": return o(args[2], x_(args[0], args[1]))
    if op == "CC_S>=": return n_(x_(args[0], args[1]))
    if op == "CC_U>": return n_(o(args[0], args[1]))
    if op == "CC_U<": return args[0]
    if op == "CC_NEG": return args[0]
    if op == "CC_EQ": return args[0]
    if op == "CC_NE": return n_(args[0])
    if op == "CC_POS": return n_(args[0])
    if op == "CC_sOVR": return args[0]              # ARM / AArch64 VS: the overflow flag
    if op == "CC_sNOOVR": return n_(args[0])        # VC
    raise KeyError(op)


# ======================================================================================================
# expression trees (real miasm Expr objects with concrete structure)
# ======================================================================================================

class Env(object):
    """valuation: identifiers, locations and memory (one byte map per address width)"""

    def __init__(self, A, big_endian=False, id_name=None, mem_name=None):
        self.A = A
        self.ids = {}
        self.mems = {}
        self.big_endian = big_endian
        self.divisors = []        # (value, width) of every divisor met: SPEC is defined when all are non-zero
        self.id_name = id_name or (lambda name, w: "id_%s_%d" % (_mangle(str(name)), w))
        self.mem_name = mem_name or (lambda aw: "mem_%d" % aw)

    def ident(self, name, w):
        key = (name, w)
        v = self.ids.get(key)
        if v is None:
            if self.A is BV:
                v = z3.BitVec(self.id_name(name, w), w)
            else:
                v = SymInt(("var", self.id_name(name, w), "I", 0, (1 << w) - 1))
            self.ids[key] = v
        return v

    def mem_byte(self, addr, aw):
        if self.A is BV:
            m = self.mems.get(aw)
            if m is None:
                m = z3.Array(self.mem_name(aw), z3.BitVecSort(aw), z3.BitVecSort(8))
                self.mems[aw] = m
            return z3.Select(m, addr)
        return mk_int("mod", UF(self.mem_name(aw), addr), 256)


def sem(expr, env):
    """(value, width) of a real miasm expression under env"""
    A = env.A
    if expr.is_int():
        v = expr._arg
        return (A.const(v, expr.size) if isinstance(v, int) else (v if A is INT else None)), expr.size
    if expr.is_id():
        return env.ident(expr.name, expr.size), expr.size
    if expr.is_loc():
        return env.ident("loc_%s" % (expr.loc_key,), expr.size), expr.size
    if expr.is_mem():
        addr, aw = sem(expr.ptr, env)
        n = expr.size // 8
        parts = []
        for i in range(n):
            a = A.add(addr, A.const(i, aw), aw)
            parts.append((env.mem_byte(a, aw), 8))
        if env.big_endian:
            parts.reverse()
        return A.concat(parts), expr.size
    if expr.is_cond():
        c, cw = sem(expr.cond, env)
        a, w = sem(expr.src1, env)
        b, _ = sem(expr.src2, env)
        return A.ite(A.nz(c, cw), a, b, w), w
    if expr.is_slice():
        a, w = sem(expr.arg, env)
        return A.extract(a, w, expr.start, expr.stop), expr.stop - expr.start
    if expr.is_compose():
        parts = [sem(x, env) for x in expr.args]
        return A.concat(parts), sum(w for _, w in parts)
    if expr.is_op():
        vals = [sem(x, env) for x in expr.args]
        args = [v for v, _ in vals]
        widths = [w for _, w in vals]
        if expr.op in DIVS:
            env.divisors.append((args[1], widths[1]))
        return sem_op(A, expr.op, args, widths)
    raise TypeError("SPEC: unsupported node %r" % (expr,))


def eval_concrete(expr, ids=None, mem=None, big_endian=False):
    """concrete value of a real expression: ids {(name, width) or name: int}, mem: callable(addr, addr_width) -> byte.
    Raises Undefined for a zero divisor."""
    env = Env(INT, big_endian)

    class _E(Env):
        pass
    ids = ids or {}

    def ident(name, w):
        if (name, w) in ids:
            return ids[(name, w)] % (1 << w)
        if name in ids:
            return ids[name] % (1 << w)
        return 0
    env.ident = ident
    env.mem_byte = (lambda addr, aw: (mem(addr, aw) if mem else 0) % 256)
    v, w = sem(expr, env)
    for d, dw in env.divisors:
        if d == 0:
            raise Undefined("zero divisor")
    if is_sym(v):
        raise Undefined("uninterpreted operator")
    return v, w
