"""Finite family of expression templates used to validate the code generators (C04-C07): every operator x widths at
depth 1, parent/child pairs at depth 2, plus slices, compositions, conditions, memory reads and constants at the width
boundaries.  Leaves are identifiers (arbitrary values) -- the obligations quantify over ALL their values."""
from __future__ import annotations

from miasm.expression.expression import ExprCompose, ExprCond, ExprId, ExprInt, ExprMem, ExprOp, ExprSlice

BIN = ["+", "*", "&", "^", "|", "<<", ">>", "a>>", "<<<", ">>>", "==", "<u", "<s", "<=u", "<=s"]
DIV = ["/", "%", "udiv", "umod", "sdiv", "smod"]
UN = ["-", "parity", "cnttrailzeros", "cntleadzeros"]
NARY = ["+", "*", "&", "^", "|"]


def ids(w, n=3):
    return [ExprId("abc"[i] + str(w), w) for i in range(n)]


def consts(w):
    vals = sorted(set([0, 1, (1 << w) - 1, 1 << (w - 1), (1 << (w - 1)) - 1, 0x5a5a5a5a5a5a5a5a5a5a % (1 << w), w % (1 << w)]))
    return [ExprInt(v, w) for v in vals]


def depth1(w, with_div=True, ext_to=()):
    a, b, c = ids(w)
    out = []
    for op in BIN + (DIV if with_div else []):
        out.append(("%s/w%d" % (op, w), ExprOp(op, a, b)))
    for op in NARY:
        out.append(("%s3/w%d" % (op, w), ExprOp(op, a, b, c)))
    for op in UN:
        out.append(("%s/w%d" % (op, w), ExprOp(op, a)))
    for n in ext_to:
        if n > w:
            out.append(("zeroExt_%d/w%d" % (n, w), ExprOp("zeroExt_%d" % n, a)))
            out.append(("signExt_%d/w%d" % (n, w), ExprOp("signExt_%d" % n, a)))
    # constants on either side (shift counts at and above the width, masks, signs)
    for k in consts(w):
        for op in ("+", "&", "<<", ">>", "a>>", "<<<", ">>>", "<s", "<u", "=="):
            out.append(("%s-const%x/w%d" % (op, int(k), w), ExprOp(op, a, k)))
    if w > 1:
        for (lo, hi) in sorted(set([(0, 1), (0, w - 1), (1, w), (w - 1, w), (w // 2, w), (0, w // 2 or 1)])):
            if lo < hi <= w:
                out.append(("slice%d_%d/w%d" % (lo, hi, w), ExprSlice(a, lo, hi)))
    out.append(("cond/w%d" % w, ExprCond(a, b, c)))
    out.append(("cond-cmp/w%d" % w, ExprCond(ExprOp("<s", a, b), b, c)))
    return out


def compose_family(ws):
    out = []
    for w1 in ws:
        for w2 in ws:
            a, b = ExprId("a%d" % w1, w1), ExprId("b%d" % w2, w2)
            out.append(("compose%d+%d" % (w1, w2), ExprCompose(a, b)))
    for w in ws:
        a, b, c = ids(w)
        out.append(("compose3x%d" % w, ExprCompose(a, b, c)))
        out.append(("compose-int/%d" % w, ExprCompose(a, ExprInt(0, w))))
    return out


def mem_family(addr_widths=(32, 64), sizes=(8, 16, 32, 64)):
    out = []
    for aw in addr_widths:
        p = ExprId("p%d" % aw, aw)
        for s in sizes:
            out.append(("mem%d@%d" % (s, aw), ExprMem(p, s)))
            out.append(("mem%d@%d+4" % (s, aw), ExprMem(p + ExprInt(4, aw), s)))
        out.append(("mem-sum@%d" % aw, ExprMem(p, 32) + ExprMem(p + ExprInt(2, aw), 32)))
    return out


def depth2(w, with_div=False):
    """every parent/child pair of productions (textual composition: casts, masks, parenthesisation)"""
    a, b, c = ids(w)
    children = [("+", ExprOp("+", a, b)), ("*", ExprOp("*", a, b)), ("-", ExprOp("-", a)), ("&", ExprOp("&", a, b)),
                (">>", ExprOp(">>", a, b)), ("a>>", ExprOp("a>>", a, b)), ("<<<", ExprOp("<<<", a, b)),
                ("cond", ExprCond(a, b, c)), ("int", ExprInt((1 << w) - 1, w))]
    if w > 1:
        children.append(("slice-ext", ExprOp("zeroExt_%d" % w, ExprSlice(a, 0, w // 2 or 1)) if (w // 2 or 1) < w else a))
        children.append(("compose", ExprCompose(ExprSlice(a, 0, w // 2), ExprSlice(b, 0, w - w // 2)) if w // 2 > 0 else a))
    if with_div:
        children += [("udiv", ExprOp("udiv", a, b)), ("sdiv", ExprOp("sdiv", a, b)), ("smod", ExprOp("smod", a, b))]
    out = []
    for cn, ch in children:
        for op in ["+", "*", "^", "<<", ">>", "a>>", ">>>", "<s", "<=u", "=="]:
            if op == "*" and cn in ("<<<", "*", ">>", "a>>") and w > 16:
                continue      # not attempted: multiplication over a rotation / product at >16 bits does not bit-blast in budget
            out.append(("%s(%s,c)/w%d" % (op, cn, w), ExprOp(op, ch, c)))
            out.append(("%s(c,%s)/w%d" % (op, cn, w), ExprOp(op, c, ch)))
        for op in ["-", "parity", "cntleadzeros", "cnttrailzeros"]:
            out.append(("%s(%s)/w%d" % (op, cn, w), ExprOp(op, ch)))
        out.append(("cond(%s)/w%d" % (cn, w), ExprCond(ch, a, c)))
        if w > 1:
            out.append(("slice(%s)/w%d" % (cn, w), ExprSlice(ch, w // 2, w)))
        if w in (32, 64):
            out.append(("mem(%s)/w%d" % (cn, w), ExprMem(ch, 16)))
    return out


def family(tier, max_w=64, div_max_w=8, big=False):
    ws = [1, 7, 8, 16, 32, 64] if tier == "quick" else [1, 2, 3, 7, 8, 9, 16, 31, 32, 33, 63, 64]
    if big:
        ws = ws + ([65, 128] if tier == "quick" else [65, 96, 127, 128])
    ws = [w for w in ws if w <= max_w]
    out = []
    for w in ws:
        exts = [n for n in (8, 16, 32, 64, 128, w + 1) if w < n <= max_w]
        out += depth1(w, with_div=(w <= div_max_w), ext_to=exts)
    for w in ([8, 32] if tier == "quick" else [1, 8, 16, 32, 64]):
        if w <= max_w:
            out += depth2(w, with_div=(w <= div_max_w))
    out += compose_family([w for w in (1, 8, 16, 32) if w * 2 <= max_w])
    out += mem_family()
    seen = set()
    res = []
    for name, e in out:
        if e in seen:
            continue
        seen.add(e)
        res.append((name, e))
    return res
