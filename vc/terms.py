"""Term IR shared by the front ends.

Python integers are mathematical integers.  A term is either a concrete Python value (int / bool) or a
tuple ``(op, *args)``.  ``SymInt`` / ``SymBool`` wrap terms so that spec code (contracts) can be written
with ordinary operators; control flow on a symbolic value is *not* allowed in spec code (``__bool__``
raises) -- the interpreter (pyvc) forks instead.

Variables: ``('var', name, sort, lo, hi)`` with sort 'I' or 'B'; lo/hi are optional static bounds that are
*also* asserted by whoever created the variable (see Path.fresh_int) -- the encoder only uses them to pick
bit widths for the bit-vector bridges.
"""
from __future__ import annotations

import itertools


class SpecControlFlow(Exception):
    """bool() of a symbolic value outside the interpreter."""


class EncodingUnsupported(Exception):
    pass


# --------------------------------------------------------------------------------------------------
# wrappers
# --------------------------------------------------------------------------------------------------

def _t(x):
    if isinstance(x, (SymInt, SymBool)):
        return x.t
    if isinstance(x, bool):
        return x
    if isinstance(x, int):
        return x
    raise TypeError("not a scalar term: %r" % (x,))


def is_sym(x):
    return isinstance(x, (SymInt, SymBool))


def is_scalar(x):
    return isinstance(x, (SymInt, SymBool, int))


class SymInt(object):
    __slots__ = ("t",)

    def __init__(self, t):
        self.t = t

    def __repr__(self):
        return "SymInt(%s)" % (show(self.t),)

    def __bool__(self):
        raise SpecControlFlow("bool() of symbolic int %s" % show(self.t))

    def __hash__(self):
        return id(self)

    # arithmetic (usable in spec code)
    def __add__(self, o): return mk_int("add", self, o)
    def __radd__(self, o): return mk_int("add", o, self)
    def __sub__(self, o): return mk_int("sub", self, o)
    def __rsub__(self, o): return mk_int("sub", o, self)
    def __mul__(self, o): return mk_int("mul", self, o)
    def __rmul__(self, o): return mk_int("mul", o, self)
    def __floordiv__(self, o): return mk_int("floordiv", self, o)
    def __rfloordiv__(self, o): return mk_int("floordiv", o, self)
    def __mod__(self, o): return mk_int("mod", self, o)
    def __rmod__(self, o): return mk_int("mod", o, self)
    def __and__(self, o): return mk_int("and", self, o)
    def __rand__(self, o): return mk_int("and", o, self)
    def __or__(self, o): return mk_int("or", self, o)
    def __ror__(self, o): return mk_int("or", o, self)
    def __xor__(self, o): return mk_int("xor", self, o)
    def __rxor__(self, o): return mk_int("xor", o, self)
    def __lshift__(self, o): return mk_int("shl", self, o)
    def __rlshift__(self, o): return mk_int("shl", o, self)
    def __rshift__(self, o): return mk_int("shr", self, o)
    def __rrshift__(self, o): return mk_int("shr", o, self)
    def __neg__(self): return mk_int("sub", 0, self)
    def __pos__(self): return self
    def __invert__(self): return mk_int("sub", -1, self)
    def __eq__(self, o):
        if not is_scalar(o):
            return NotImplemented
        return mk_cmp("eq", self, o)
    def __ne__(self, o):
        if not is_scalar(o):
            return NotImplemented
        return Not(mk_cmp("eq", self, o))
    def __lt__(self, o): return mk_cmp("lt", self, o)
    def __le__(self, o): return mk_cmp("le", self, o)
    def __gt__(self, o): return mk_cmp("lt", o, self)
    def __ge__(self, o): return mk_cmp("le", o, self)


class SymBool(object):
    __slots__ = ("t",)

    def __init__(self, t):
        self.t = t

    def __repr__(self):
        return "SymBool(%s)" % (show(self.t),)

    def __bool__(self):
        raise SpecControlFlow("bool() of symbolic bool %s" % show(self.t))

    def __hash__(self):
        return id(self)

    def __and__(self, o): return And(self, o)
    def __rand__(self, o): return And(o, self)
    def __or__(self, o): return Or(self, o)
    def __ror__(self, o): return Or(o, self)
    def __invert__(self): return Not(self)
    def __eq__(self, o):
        if not isinstance(o, (SymBool, bool)):
            if is_scalar(o):
                return mk_cmp("eq", b2i(self), o)
            return NotImplemented
        return Iff(self, o)
    def __ne__(self, o):
        r = self.__eq__(o)
        if r is NotImplemented:
            return r
        return Not(r)


def wrap(t):
    """term -> python value (int/bool) or SymInt/SymBool"""
    if isinstance(t, (bool, int)):
        return t
    if sort_of(t) == "B":
        return SymBool(t)
    return SymInt(t)


# --------------------------------------------------------------------------------------------------
# constructors with constant folding
# --------------------------------------------------------------------------------------------------

INT_OPS = {"add", "sub", "mul", "floordiv", "mod", "and", "or", "xor", "shl", "shr", "pow", "ite", "uf", "b2i"}
BOOL_OPS = {"eq", "lt", "le", "not", "andb", "orb", "iff", "iteb", "ufb"}


def sort_of(t):
    if isinstance(t, bool):
        return "B"
    if isinstance(t, int):
        return "I"
    op = t[0]
    if op == "var":
        return t[2]
    if op in BOOL_OPS:
        return "B"
    return "I"


class PyArith(Exception):
    """A Python-level arithmetic exception (ZeroDivisionError, negative shift...) detected at build time
    on concrete operands."""

    def __init__(self, exc):
        Exception.__init__(self, repr(exc))
        self.exc = exc


def _fold(op, a, b):
    try:
        if op == "add": return a + b
        if op == "sub": return a - b
        if op == "mul": return a * b
        if op == "floordiv": return a // b
        if op == "mod": return a % b
        if op == "and": return a & b
        if op == "or": return a | b
        if op == "xor": return a ^ b
        if op == "shl": return a << b
        if op == "shr": return a >> b
        if op == "pow":
            if b < 0:
                raise EncodingUnsupported("negative power")
            return a ** b
    except (ZeroDivisionError, ValueError, OverflowError) as e:
        raise PyArith(e)
    raise KeyError(op)


def linear(t, depth=0):
    """(coefficients {atom term: int}, constant) of a term that is linear over its non-linear atoms"""
    if isinstance(t, bool):
        return {}, int(t)
    if isinstance(t, int):
        return {}, t
    op = t[0]
    if depth < 40:
        if op in ("add", "sub"):
            ca, ka = linear(t[1], depth + 1)
            cb, kb = linear(t[2], depth + 1)
            sgn = 1 if op == "add" else -1
            out = dict(ca)
            for k, v in cb.items():
                nv = out.get(k, 0) + sgn * v
                if nv:
                    out[k] = nv
                else:
                    out.pop(k, None)
            return out, ka + sgn * kb
        if op == "mul":
            for x, y in ((t[1], t[2]), (t[2], t[1])):
                if isinstance(x, int) and not isinstance(x, bool):
                    cy, ky = linear(y, depth + 1)
                    if x == 0:
                        return {}, 0
                    return dict((k, v * x) for k, v in cy.items()), ky * x
        if op == "shl" and isinstance(t[2], int) and not isinstance(t[2], bool) and 0 <= t[2] <= 4096:
            cy, ky = linear(t[1], depth + 1)
            f = 1 << t[2]
            return dict((k, v * f) for k, v in cy.items()), ky * f
    return {t: 1}, 0


def from_linear(coefs, const):
    r = const
    for atom, k in coefs.items():
        term = wrap(atom) if k == 1 else mk_int("mul", k, wrap(atom))
        r = term if (isinstance(r, int) and r == 0) else mk_int("add", r, term)
    return r


def _reduce_divmod(op, ta, m):
    """(k*m*x + rest) // m and % m with a positive constant m: drop / factor the divisible part"""
    coefs, c = linear(ta)
    div = dict((a, k) for a, k in coefs.items() if k % m == 0)
    if not div and not (c >= m or c < 0):
        return None
    rest = dict((a, k) for a, k in coefs.items() if k % m != 0)
    if op == "mod":
        if not rest:
            return c % m
        if not div and 0 <= c < m:
            return None
        inner = from_linear(rest, c % m)
        return SymInt(("mod", _t(inner), m)) if isinstance(inner, SymInt) else inner % m
    # floordiv
    q = from_linear(dict((a, k // m) for a, k in div.items()), c // m if not rest else 0)
    if not rest:
        return q
    if not div:
        return None
    inner = from_linear(rest, c)
    return mk_int("add", q, SymInt(("floordiv", _t(inner), m)) if isinstance(inner, SymInt) else inner // m)


def mk_int(op, a, b):
    if isinstance(a, SymBool) or isinstance(a, bool):
        a = b2i(a)
    if isinstance(b, SymBool) or isinstance(b, bool):
        b = b2i(b)
    ta, tb = _t(a), _t(b)
    if isinstance(ta, int) and isinstance(tb, int):
        return _fold(op, ta, tb)
    # light identities (keep terms small; nothing clever)
    if op == "add":
        if ta == 0 and isinstance(ta, int): return wrap(tb)
        if tb == 0 and isinstance(tb, int): return wrap(ta)
    elif op == "sub":
        if tb == 0 and isinstance(tb, int): return wrap(ta)
        if ta == tb: return 0
        if not isinstance(ta, int) and not isinstance(tb, int) and (ta[0] in ("add", "sub") or tb[0] in ("add", "sub")):
            ca, ka = linear(ta)
            cb, kb = linear(tb)
            if any(k in ca for k in cb):
                return from_linear(linear(("sub", ta, tb))[0], ka - kb)
    elif op == "mul":
        if isinstance(ta, int):
            if ta == 0: return 0
            if ta == 1: return wrap(tb)
        if isinstance(tb, int):
            if tb == 0: return 0
            if tb == 1: return wrap(ta)
    elif op in ("shl", "shr"):
        if isinstance(tb, int) and tb == 0: return wrap(ta)
        if isinstance(ta, int) and ta == 0: return 0
        if isinstance(tb, int) and tb > 4096:
            # never materialise 2**tb: a value with static bounds below 2**4096 is shifted out entirely
            lo, hi = bounds(ta, BOUNDS_MEMO)
            if op == "shr" and lo is not None and hi is not None and abs(lo).bit_length() <= 4096 and hi.bit_length() <= 4096:
                if lo >= 0:
                    return 0
                return Ite(mk_cmp("lt", wrap(ta), 0), -1, 0)
            raise EncodingUnsupported("shift by the constant %d of a value without small static bounds" % tb)
    elif op in ("or", "xor"):
        if isinstance(tb, int) and tb == 0: return wrap(ta)
        if isinstance(ta, int) and ta == 0: return wrap(tb)
    elif op == "and":
        if isinstance(tb, int) and tb == 0: return 0
        if isinstance(ta, int) and ta == 0: return 0
    elif op == "floordiv":
        if isinstance(tb, int) and tb == 1: return wrap(ta)
    if op in ("and", "mod") and isinstance(tb, int) and tb > 0 and not isinstance(ta, int):
        # x & (2^k - 1) and x % m are the identity on values already in range (static bounds)
        if op == "mod" or (tb & (tb + 1)) == 0:
            lo, hi = bounds(ta, BOUNDS_MEMO)
            lim = tb if op == "mod" else tb + 1
            if lo is not None and hi is not None and lo >= 0 and hi < lim:
                return wrap(ta)
    if op == "and" and isinstance(ta, int) and ta > 0 and (ta & (ta + 1)) == 0 and not isinstance(tb, int):
        lo, hi = bounds(tb, BOUNDS_MEMO)
        if lo is not None and hi is not None and lo >= 0 and hi <= ta:
            return wrap(tb)
    if op in ("floordiv", "mod") and isinstance(tb, int) and tb > 1 and not isinstance(ta, int):
        r = _reduce_divmod(op, ta, tb)
        if r is not None:
            return r
    return SymInt((op, ta, tb))


def mk_cmp(op, a, b):
    if isinstance(a, (SymBool, bool)):
        a = b2i(a)
    if isinstance(b, (SymBool, bool)):
        b = b2i(b)
    ta, tb = _t(a), _t(b)
    if isinstance(ta, int) and isinstance(tb, int):
        if op == "eq": return ta == tb
        if op == "lt": return ta < tb
        if op == "le": return ta <= tb
    if ta == tb and not isinstance(ta, int):
        if op in ("eq", "le"): return True
        if op == "lt": return False
    return SymBool((op, ta, tb))


def b2i(a):
    if isinstance(a, bool):
        return int(a)
    if isinstance(a, SymBool):
        return SymInt(("b2i", a.t))
    return a


def tobool(a):
    """int-or-bool scalar -> bool scalar (truthiness)"""
    if isinstance(a, (bool, SymBool)):
        return a
    if isinstance(a, int):
        return a != 0
    if isinstance(a, SymInt):
        if a.t[0] == "b2i":
            return SymBool(a.t[1])
        return Not(mk_cmp("eq", a, 0))
    raise TypeError("tobool of %r" % (a,))


def Not(a):
    a = tobool(a)
    if isinstance(a, bool):
        return not a
    t = a.t
    if t[0] == "not":
        return wrap(t[1])
    return SymBool(("not", t))


def And(*xs):
    out = []
    for x in xs:
        x = tobool(x)
        if isinstance(x, bool):
            if not x:
                return False
            continue
        if x.t[0] == "andb":
            out.extend(x.t[1:])
        else:
            out.append(x.t)
    if not out:
        return True
    if len(out) == 1:
        return SymBool(out[0])
    return SymBool(("andb",) + tuple(out))


def Or(*xs):
    out = []
    for x in xs:
        x = tobool(x)
        if isinstance(x, bool):
            if x:
                return True
            continue
        if x.t[0] == "orb":
            out.extend(x.t[1:])
        else:
            out.append(x.t)
    if not out:
        return False
    if len(out) == 1:
        return SymBool(out[0])
    return SymBool(("orb",) + tuple(out))


def Implies(a, b):
    return Or(Not(a), b)


def Iff(a, b):
    a, b = tobool(a), tobool(b)
    if isinstance(a, bool):
        return b if a else Not(b)
    if isinstance(b, bool):
        return a if b else Not(a)
    if a.t == b.t:
        return True
    return SymBool(("iff", a.t, b.t))


def Ite(c, a, b):
    """scalar if-then-else (ints or bools)"""
    c = tobool(c)
    if isinstance(c, bool):
        return a if c else b
    if isinstance(a, (bool, SymBool)) and isinstance(b, (bool, SymBool)):
        ta, tb = _t(a), _t(b)
        if ta == tb and type(ta) == type(tb):
            return a
        return SymBool(("iteb", c.t, ta, tb))
    a, b = b2i(a), b2i(b)
    ta, tb = _t(a), _t(b)
    if ta == tb and type(ta) == type(tb):
        return a
    return SymInt(("ite", c.t, ta, tb))


def Min(a, b):
    return Ite(mk_cmp("le", a, b), a, b)


def Max(a, b):
    return Ite(mk_cmp("le", a, b), b, a)


def Abs(a):
    if isinstance(a, int):
        return abs(a)
    return Ite(mk_cmp("le", 0, a), a, mk_int("sub", 0, a))


def Eq(a, b):
    if isinstance(a, (bool, SymBool)) and isinstance(b, (bool, SymBool)):
        return Iff(a, b)
    return mk_cmp("eq", a, b)


def Ne(a, b):
    return Not(Eq(a, b))


def UF(name, *args, **kw):
    """uninterpreted int function; sort='B' for a predicate"""
    sort = kw.get("sort", "I")
    targs = tuple(_t(b2i(a)) for a in args)
    if sort == "B":
        return SymBool(("ufb", name) + targs)
    return SymInt(("uf", name) + targs)


def Var(name, sort="I", lo=None, hi=None):
    t = ("var", name, sort, lo, hi)
    return SymBool(t) if sort == "B" else SymInt(t)


# --------------------------------------------------------------------------------------------------
# printing / traversal
# --------------------------------------------------------------------------------------------------

_SYM = {"add": "+", "sub": "-", "mul": "*", "floordiv": "//", "mod": "%", "and": "&", "or": "|", "xor": "^",
        "shl": "<<", "shr": ">>", "pow": "**", "eq": "==", "lt": "<", "le": "<="}


def show(t, depth=0):
    if isinstance(t, (bool, int)):
        return repr(t) if abs(int(t)) < 1024 or isinstance(t, bool) else hex(t)
    if depth > 12:
        return "..."
    op = t[0]
    if op == "var":
        return t[1]
    if op in _SYM:
        return "(%s %s %s)" % (show(t[1], depth + 1), _SYM[op], show(t[2], depth + 1))
    if op in ("uf", "ufb"):
        return "%s(%s)" % (t[1], ", ".join(show(a, depth + 1) for a in t[2:]))
    return "%s(%s)" % (op, ", ".join(show(a, depth + 1) for a in t[1:]))


def free_vars(t, acc=None):
    if acc is None:
        acc = {}
    stack = [t]
    seen = set()
    while stack:
        x = stack.pop()
        if isinstance(x, (bool, int, str)) or x is None:
            continue
        if id(x) in seen:
            continue
        seen.add(id(x))
        if x[0] == "var":
            acc[x[1]] = x
            continue
        if x[0] in ("uf", "ufb"):
            stack.extend(x[2:])
        else:
            stack.extend(x[1:])
    return acc


# --------------------------------------------------------------------------------------------------
# static bounds (interval analysis over terms) -- used to choose widths for int<->bv bridges
# --------------------------------------------------------------------------------------------------

def bounds(t, memo=None):
    """(lo, hi) with None for unbounded.  Sound, not tight."""
    if memo is None:
        memo = {}
    if isinstance(t, bool):
        return (int(t), int(t))
    if isinstance(t, int):
        return (t, t)
    k = id(t)
    if k in memo:
        return memo[k]
    r = _bounds(t, memo)
    memo[k] = r
    memo.setdefault("_keep", []).append(t)
    return r


def _bounds(t, memo):
    op = t[0]
    if op == "var":
        if t[2] == "B":
            return (0, 1)
        return (t[3], t[4])
    if op == "b2i":
        return (0, 1)
    if op in ("uf",):
        return (None, None)
    if sort_of(t) == "B":
        return (0, 1)
    if op == "ite":
        a, b = bounds(t[2], memo), bounds(t[3], memo)
        c = t[1]
        if isinstance(c, tuple) and c[0] in ("le", "lt"):
            def same(x, y):
                return x is y or (isinstance(x, int) and isinstance(y, int) and x == y) or x == y
            mn = lambda p, q: None if p is None or q is None else min(p, q)
            mx = lambda p, q: None if p is None or q is None else max(p, q)
            if same(c[1], t[2]) and same(c[2], t[3]):        # x <= y ? x : y   == min(x, y)
                hi = a[1] if b[1] is None else (b[1] if a[1] is None else min(a[1], b[1]))
                return (mn(a[0], b[0]), hi)
            if same(c[1], t[3]) and same(c[2], t[2]):        # x <= y ? y : x   == max(x, y)
                lo = a[0] if b[0] is None else (b[0] if a[0] is None else max(a[0], b[0]))
                return (lo, mx(a[1], b[1]))
        lo = None if a[0] is None or b[0] is None else min(a[0], b[0])
        hi = None if a[1] is None or b[1] is None else max(a[1], b[1])
        return (lo, hi)
    a, b = bounds(t[1], memo), bounds(t[2], memo)
    (al, ah), (bl, bh) = a, b
    if op == "add":
        return (None if al is None or bl is None else al + bl, None if ah is None or bh is None else ah + bh)
    if op == "sub":
        return (None if al is None or bh is None else al - bh, None if ah is None or bl is None else ah - bl)
    if op == "mul":
        if None in (al, ah, bl, bh):
            if al is not None and bl is not None and al >= 0 and bl >= 0:
                return (al * bl, None)
            return (None, None)
        c = [al * bl, al * bh, ah * bl, ah * bh]
        return (min(c), max(c))
    if op == "mod":
        if bl is not None and bl > 0 and bh is not None:
            return (0, bh - 1)
        if bl is not None and bl > 0:
            return (0, None)
        if bl is not None and bh is not None:
            m = max(abs(bl), abs(bh))       # |a % b| < |b| (b == 0 raises before the term is built)
            return (-(m - 1) if m else 0, (m - 1) if m else 0)
        return (None, None)
    if op == "floordiv":
        if bl is not None and bl > 0:
            # divisor positive: |a // b| <= |a|, sign preserved (floor)
            lo = None if al is None else (al if al < 0 else 0)
            hi = None if ah is None else (ah if ah >= 0 else -1)
            if None not in (al, ah, bh):
                c = [al // bl, al // bh, ah // bl, ah // bh]
                lo, hi = min(c), max(c)
            return (lo, hi)
        if al is not None and ah is not None:
            m = max(abs(al), abs(ah))       # |a // b| <= |a| for |b| >= 1, floor may add one in magnitude
            return (-m - 1, m + 1)
        return (None, None)
    if op == "and":
        # nonneg & anything-nonneg
        if al is not None and al >= 0 and bl is not None and bl >= 0:
            c = [x for x in (ah, bh) if x is not None]
            return (0, min(c) if c else None)
        if bl is not None and bl >= 0 and bh is not None:
            return (0, bh)
        if al is not None and al >= 0 and ah is not None:
            return (0, ah)
        return (None, None)
    if op in ("or", "xor"):
        if al is not None and al >= 0 and bl is not None and bl >= 0 and ah is not None and bh is not None:
            n = max(ah, bh).bit_length()
            return (0, (1 << n) - 1)
        if None not in (al, ah, bl, bh):
            n = max(abs(al), abs(ah) + 1, abs(bl), abs(bh) + 1).bit_length()
            return (-(1 << n), (1 << n) - 1)
        return (None, None)
    if op == "shl":
        if bl is not None and bl < 0:
            bl = 0      # shift counts are non-negative on every path that builds the term
        if bl is not None and bl >= 0 and bh is not None and bh <= 4096 and al is not None and ah is not None:
            c = [al << bl, al << bh, ah << bl, ah << bh]
            return (min(c), max(c))
        return (None, None)
    if op == "shr":
        # shift counts are non-negative (the interpreter forks the ValueError path): x >> s lies between x and 0 / -1
        if al is not None and ah is not None:
            lo = 0 if al >= 0 else al
            hi = ah if ah >= 0 else -1
            if bl is not None and bl > 0:
                lo, hi = (lo >> bl), (hi >> bl if hi >= 0 else -1)
            return (lo, hi)
        return (None, None)
    if op == "pow":
        return (None, None)
    return (None, None)


# static bounds of the terms built on the current path (reset by Path.__init__); entries keep their term alive
BOUNDS_MEMO = {}


def reset_bounds_memo():
    BOUNDS_MEMO.clear()


def refine_bounds(assertions, memo):
    """tighten the static bounds of the terms that the (path-condition) assertions compare with constants:
    `x <= c`, `x < c`, `c <= x`, `c < x`, `x == c` and their negations, at the top level or inside a top-level conjunction"""
    def tighten(t, lo, hi):
        if isinstance(t, (int, bool)):
            return
        l0, h0 = bounds(t, memo)
        if lo is not None and (l0 is None or lo > l0):
            l0 = lo
        if hi is not None and (h0 is None or hi < h0):
            h0 = hi
        memo[id(t)] = (l0, h0)
        memo.setdefault("_keep", []).append(t)

    def visit(a, positive):
        if isinstance(a, bool) or not isinstance(a, tuple):
            return
        op = a[0]
        if op == "not":
            visit(a[1], not positive)
            return
        if op == "andb" and positive:
            for x in a[1:]:
                visit(x, True)
            return
        if op == "orb" and not positive:
            for x in a[1:]:
                visit(x, False)
            return
        if op in ("le", "lt"):
            x, y = a[1], a[2]
            strict = (op == "lt")
            if not positive:           # not(x <= y) == y < x ; not(x < y) == y <= x
                x, y = y, x
                strict = not strict
            if isinstance(y, int) and not isinstance(y, bool):
                tighten(x, None, y - 1 if strict else y)
            if isinstance(x, int) and not isinstance(x, bool):
                tighten(y, x + 1 if strict else x, None)
            return
        if op == "eq" and positive:
            x, y = a[1], a[2]
            if isinstance(y, int) and not isinstance(y, bool):
                tighten(x, y, y)
            if isinstance(x, int) and not isinstance(x, bool):
                tighten(y, x, x)
    for a in assertions:
        visit(a, True)


def eval_term(t, model):
    """concrete value of a term under a model {var name: value}; variables missing from the model take their lower bound / 0"""
    memo = {}

    def ev(x):
        if isinstance(x, (bool, int)):
            return x
        k = id(x)
        if k in memo:
            return memo[k]
        op = x[0]
        if op == "var":
            if x[1] in model:
                r = model[x[1]]
                r = bool(r) if x[2] == "B" else int(r)
            elif x[2] == "B":
                r = False
            else:
                r = x[3] if x[3] is not None else (x[4] if x[4] is not None and x[4] < 0 else 0)
        elif op == "b2i":
            r = int(bool(ev(x[1])))
        elif op == "not":
            r = not ev(x[1])
        elif op == "andb":
            r = all(ev(y) for y in x[1:])
        elif op == "orb":
            r = any(ev(y) for y in x[1:])
        elif op == "iff":
            r = bool(ev(x[1])) == bool(ev(x[2]))
        elif op in ("ite", "iteb"):
            r = ev(x[2]) if ev(x[1]) else ev(x[3])
        elif op in ("uf", "ufb"):
            r = 0 if op == "uf" else False
        elif op == "eq":
            r = ev(x[1]) == ev(x[2])
        elif op == "lt":
            r = ev(x[1]) < ev(x[2])
        elif op == "le":
            r = ev(x[1]) <= ev(x[2])
        else:
            a, b = ev(x[1]), ev(x[2])
            try:
                r = _fold(op, int(a), int(b))
            except PyArith:
                r = 0
        memo[k] = r
        return r
    return ev(t)


_fresh = itertools.count()
